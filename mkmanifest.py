#!/usr/bin/env python3
"""Writes MANIFEST.json from the table below (kept in one place so the claimed
set, the not-applicable list and the per-property texts stay consistent)."""
import json, subprocess

HOOK_COMMITS = subprocess.run(
    ["git", "-C", "/repo", "log", "--format=%h %s", "--grep=^verif:"],
    capture_output=True, text=True).stdout.strip().splitlines()

TRUST = ("Trusted: govc itself (go/ssa semantics, memory model, contract parser), go/packages+go/types+go/ssa v0.29.0, "
         "z3 5.1.0 / cvc5 1.0.x / z3 4.8.12, the assumed contracts on dependencies listed in the evidence file, "
         "slice/string/map lengths < 2^48, sequential semantics. Integers are mathematical with Go wrap-around written out.")

CLAIMED = {
 "C18": dict(
   text=("Two thirds of this property relate whole runs (processing twice vs once, incremental vs batch loading): contracts on single calls cannot state "
         "that, so the relation itself is a bounded stand-in (labelled): random histories of up to 14 operations on one module set -- load a good text, "
         "load a bad text (syntax error, unknown statement, a valid module followed by an invalid one, a top-level non-module), load a text with a module "
         "whose name is taken (also behind a fine module), read every tree, process, process twice -- compared after every process with the batch run of "
         "the good texts on a fresh set: complete rendering of all trees, types, identity lists and errors. Deductive proof of the single-call mechanisms "
         "the relation rests on: Process hands over to process only with an empty entry cache and empty merged-submodule marks (call-site assertion; "
         "ClearEntryCache's contract); Modules.include leaves a module that could not be completed unmarked, so the next run tries again (closure and "
         "function contract); Modules.Parse builds only modules and submodules; an already resolved type or typedef answers with what was found then and "
         "is left alone. Six defects of this property were found by the history test and repaired (failed import never retried; resolved-with-errors "
         "came out clean on the second run; Parse not atomic; typedefs of refused modules kept; types resolved before Process kept). Assumed: "
         "forgetResolvedTypes (reflection) writes resolved-type fields only."),
   ref="8 (C18)"),
 "C03": dict(
   text=("The one-to-one mirroring is implemented by closures over reflect that are generated at package init: no contract in this memory model can say "
         "that a substatement lands in the field of its keyword, so that part is a bounded stand-in (labelled) and nothing about it is counted as proved: "
         "every module and submodule the schema generators produce (containers, lists, leaves, choices, rpcs, actions, notifications, groupings, uses, "
         "typedefs, augments, deviations, identities, revisions, features, extension statements at every level) is built and every node of the AST is "
         "walked against the statement it was built from -- each substatement exactly once, in the field of its keyword, in source order among its "
         "keyword, prefixed ones in the extension list, argument as name, link to the enclosing node, reference back to the statement, and nothing in "
         "any field that no substatement produced; 25 single-fault texts (unknown keyword in context, second single-valued substatement, absent "
         "mandatory substatement, top-level non-module) must be rejected. Deductive proof only of the two rejection clauses that are plain code: "
         "Modules.Parse hands a top-level statement to the builder only if its keyword is module or submodule, Modules.add accepts only nodes of kind "
         "module or submodule (and only *Module reports those kinds: all 47 Node implementations checked). Assumed: the builder returns a node or an error."),
   ref="8 (C03)"),
 "C02": dict(
   text=("Deductive proof of the token-class clauses that are contracts on real functions: the lexer cursor (next, backup, peek, acceptRun: under C16); an "
         "unquoted token ends at, and only at, white space, a quote, ';', '{', '}' or the end of input, every other character belongs to it "
         "(lexUnquoted, assertions at its two calls); in a double-quoted string a backslash pair other than \\n \\t \\\" \\\\ is an error, reported at the "
         "backslash, unless the lexer is in pattern mode, and an unterminated string is reported at its opening quote at end of input only "
         "(lexQString); ';' '{' '}' and a '+' in front of a quote are tokens of their own (lexGround); a concatenation is handed on as the token of its "
         "first piece (parser.next, loop invariant); Parse returns no statements when it returns an error. These are partial contracts: the cursor "
         "preconditions of the calls inside are assumed. The content clauses (which bytes end up in an argument: indentation stripping, trailing-blank "
         "trimming, escapes, concatenation, nesting and order) are bounded (labelled): statement forests generated as data, written in random RFC 7950 "
         "6.1.3 spellings with comments, tabs, CR LF and multi-byte characters between tokens, must parse back to exactly the forest; every text is "
         "also damaged once and must then be rejected with nothing returned; the four constructs the property leaves open are not generated. Not "
         "decided: acceptance iff well-formed as a language equivalence."),
   ref="8 (C02)"),
 "C08": dict(
   text=("Deductive proof on Entry.ApplyDeviate (partial contract): whatever deviate statements a deviation has, the loop that applies them writes only the "
         "target node -- its config, default, mandatory, units, type, the two bounds of its list attributes -- the child map and error list of the target's "
         "parent (not-supported), and the error list being returned; every other field of every entry, type and map that existed is unchanged (frame "
         "obligations per state key, for every number of deviate statements); not-supported removes the target itself from its own parent (call-site "
         "assertion on delete, whose contract removes exactly that key); the frame of the error-list arrays is generated but not claimed (undecided by "
         "the solvers). Which values are written is bounded (labelled): random base schemas with 1-5 deviations of every kind and property, several "
         "deviate statements per deviation in an order that matters, one or two deviating modules, both settings of ignore-not-supported, against RFC 7950 "
         "7.20.3 applied to an independent model; deviations that cannot be applied must be errors. A defect found here (deviate statements applied in map "
         "order instead of written order) is repaired. Assumed: Find's and the sort's effects before the loop."),
   ref="8 (C08)"),
 "C06": dict(
   text=("Deductive proof of the copying machinery every uses goes through, on the real functions: Entry.dup returns a copy in which the node and everything "
         "below it is fresh, points back to its copy-parent, keeps names, kinds and scalar attributes, has its own list attributes and its own rpc "
         "input/output, and writes nothing that existed; Entry.merge files a fresh copy of each child under the user, re-parents it, stamps what the "
         "caller passes, never overwrites, reports a collision, and writes neither the source tree nor any slice backing array shared with it (the "
         "aliasing defects found here were of exactly that kind). The scope rule of FindGrouping (reflection) and the uses arm of ToEntry are outside the "
         "subset. Bounded (labelled): random schemas with groupings at module, submodule, container and nested-grouping scope (shadowing names), used "
         "across modules under arbitrary prefixes, against an independent expander: every use a faithful copy (names, kinds, types resolved where the "
         "grouping is defined, defaults, config, list bounds), in the namespace of the using module, no node / list-attribute / rpc object shared; one "
         "instance changed by an augment leaves the others as they were; two load orders."),
   ref="8 (C06)"),
 "C07": dict(
   text=("Deductive proof on Entry.Augment (partial contract, call-site assertions): every augment of a pass is either counted as processed or kept and "
         "counted as skipped; merge is called only with a target that was found and can have children, with the augment entry itself as source, without "
         "prefix, and with the namespace of the augment entry (the augmenting module) as stamp; 'not found' is reported only in the final pass; a target "
         "that cannot have children is an error; merge's own contract (fresh re-parented copies, collisions reported, stamping) and Find's (C17) carry the "
         "rest. Process's retry loop is not under contract. Bounded (labelled): random module sets with 2-7 augments chained across modules and "
         "submodules into containers, lists, choices, cases, rpc input/output, notifications and nodes created by other augments or uses, statements "
         "shuffled, three load orders, against an independent expander (tree and namespaces); sets with a missing target, a leaf target or a taken name "
         "must be errors. Assumed: preconditions of Find and Namespace inside Augment."),
   ref="8 (C07)"),
 "C09": dict(
   text=("Deductive proof on the real functions: the typedef dictionary (find reads exactly the entry of (node, name); add files one entry and changes no "
         "other, every node keeps its own table); findExternal returns a top-level typedef of exactly the module that the referencing module imports under "
         "the prefix (or one of the submodules that module includes), never another; the binding step of Type.resolve, as assertions at the call that "
         "resolves the typedef found: a built-in name denotes the built-in, an unprefixed or own-prefixed name the typedef of the nearest enclosing scope "
         "(loop invariant over the AST parent walk), only then a submodule the module includes, a foreign prefix the imported module; Typedef.resolve: the "
         "resolved type is a fresh copy of its base's, named after the typedef, own units and default win, everything else inherited, an already resolved "
         "typedef is left alone. Type.resolve is partially specified (`only`): its restriction code is not under contract, the proved clauses assume the "
         "unclaimed callee preconditions listed in the evidence. Bounded (labelled): random schemas with typedefs at every scope kind, shadowing, chains and "
         "imports against the generator's own resolver (kind, units, default, accumulated patterns, range, enum/bit names, fraction digits, union members), "
         "cyclic/unknown references must be errors, two runs must agree; fixed aliasing and union cases. Assumed: loading a module keeps existing typedefs "
         "and types; YangType.Equal reads only."),
   ref="8 (C09)"),
 "C16": dict(
   text=("Deductive proof on the real cursor functions: (*lexer).next advances the position by the width of the decoded character (assumed contract of "
         "utf8.DecodeRuneInString), adds one line and resets both columns on a line feed, counts every other character -- a tab or a multi-byte character "
         "included -- as one column, and changes nothing else; backup undoes exactly one next; consume moves only the token start; Statement.Location and "
         "the Source/Location accessors print the stored file, line and column unchanged. Bounded (labelled): statement positions, syntax-error positions "
         "and positions inside semantic errors against a text generator that records where it writes each token (tabs, CR LF, comments, multi-byte "
         "characters, multi-line strings). Not decided deductively: the token-to-statement plumbing of the lexer states and the parser (string content)."),
   ref="8 (C16)"),
 "C15": dict(
   text=("Deductive proof, for all inputs, on the real functions (go/ssa of the working tree): Number.Less/Equal equal comparison of value*10^(18-fd) "
         "in exact integer arithmetic for every pair of (magnitude, sign, fraction-digits<=18), incl. mixed fraction digits and negative zero; "
         "pow10/Trunc/frac against the 10^k table without wrap-around; Int() exact or error, never wrapped; FromInt/FromUint/addQuantum exact; "
         "decimalValueFromString/ParseDecimal: every narrowing conversion in range, result at the requested precision with an int64 mantissa. "
         "Not decided: print/parse round trip and literal denotation (string content), FromFloat."),
   ref="8 (C15)"),
 "C10": dict(
   text=("Deductive proof with loop invariants and inductive lemmas over the real functions: coalesce returns the same value set (membership spec over "
         "the backing array), valid, sorted, non-adjacent parts; Contains accepted => subset; Validate accepted => every part valid and strictly "
         "disjoint; parseChildRanges on success returns valid, disjoint, coalesced parts at the required scale that are a subset of a non-empty "
         "parent, min/max resolve to the parent's bounds (closure contract), out-of-order parts are rejected. Assumed: YangRange.Sort (sort.Sort) "
         "sorts by minimum and preserves the set. Not decided: splitting of the restriction text, equality with the written set as one postcondition "
         "(proved per stage), the eight built-in range constants (closed terms), the call site in Type.resolve."),
   ref="8 (C10)"),
 "C14": dict(
   text=("Deductive proof of the EnumType representation invariant (both maps are mutually inverse views, values within [min,max], last = highest "
         "value assigned) across NewEnumType/NewBitfield/Set/SetNext and the `set` closure of Type.resolve; Set succeeds exactly when the name is new, "
         "the value in range and (enums) unused; SetNext assigns 0 to a first member and last+1 otherwise, and errors exactly when that would exceed "
         "the maximum. Not decided: that the member loops of Type.resolve offer every member once in source order (Type.resolve is not yet under contract)."),
   ref="8 (C14)"),
 "C20": dict(
   text=("Deductive proof that actualWrittenSize returns exactly the caller bytes among the first n bytes of bytes.Join(lines, prefix) (recursive spec "
         "cb taken from the documented Join semantics), never negative, never more than the bytes accepted; Write returns "
         "len(buf) on success and 0,nil for an empty argument; NewWriter returns w itself for an empty indent. Bounded (labelled): chunk-independence of the rendered bytes and the count returned under short writes, exhaustively for short texts. Not decided: chunk-independence of the "
         "rendered bytes (needs Join/SplitAfter content reasoning), Write's byte count against the ghost number of bytes the underlying writer took."),
   ref="8 (C20)"),
 "C12": dict(
   text=("Deductive proof on the real functions: Entry.ReadOnly equals the recursive spec ro taken literally from the statement (nearest explicit config "
         "says false, or inside an rpc/action output) and terminates on acyclic parents; Entry.Namespace returns the nearest namespace stamp on the way "
         "up, else the namespace of the module at the root (its owner for a submodule), else a fresh empty value; RootNode returns the top of the AST "
         "parent chain. Assumed: AST parents are a function of the node and acyclic, entry parents are acyclic, TriState fields hold one of three values. "
         "FindModuleByNamespace answers from a coherent cache or, on a miss, with the only loaded module of that namespace (two are an error, none is an error) and caches only what it found; Entry.Modules is the module set at the root; InstantiatingModule returns the name of a loaded module whose namespace is the node's namespace. Stamping: merge stamps what it is given, Augment passes the augment's own namespace (C07). Not decided: the composition 'whose text placed it' over the whole pipeline (bounded under C06/C07: namespaces of every node against the independent expander)."),
   ref="8 (C12)"),
 "C13": dict(
   text=("Deductive proof: Module.Current is the greatest revision name (for every statement order), FullName = name[@current]; Modules.add accepts only "
         "modules/submodules, rejects an occupied full name leaving both maps unchanged, otherwise files the module under its full name and lets the "
         "bare name denote the greater full name; FindModule returns the exact revision when a revision-date is given and loaded, else the bare name, "
         "from the right map; only *Module reports kind module/submodule (checked on all 47 Node implementations). Bounded (labelled): file selection "
         "over all subsets of 12 candidate names, load-order independence over all permutations of small header sets. Known finding (open): a "
         "revision-less module and a revisioned one of the same name are order-dependent. Not decided: include == inline."),
   ref="8 (C13)"),
 "C17": dict(
   text=("Deductive proof of per-step contracts on Entry.Find for every path length: each iteration moves exactly as the step function taken from the "
         "statement says ('.' stays, '..' parent, below an rpc only input/output, elsewhere the child filed under the unprefixed step), an early nil "
         "return happens only when the step names nothing, existing input/output entries are never replaced, lazily created ones are linked to the rpc "
         "entry, the rest of the tree is untouched; getPrefix, module and FindModuleByPrefix (own/empty prefix => own module, unknown prefix => nil) "
         "against functional contracts. Assumed: processed-tree shape (acyclic parents, roots made from modules), AST import statements carry prefixes, "
         "loading an imported module leaves existing trees alone, ToEntry returns one entry per module. Where the walk starts is proved as loop-entry "
         "invariants: a relative path at the start node, an absolute path at the root, a prefixed absolute path at the entry of the module that wrote the "
         "start node (also for a node grafted into another module's tree); dup re-parents copies (the '..' clause). Not decided: the path<->node round "
         "trip as one theorem (induction over C04's tree invariant, on paper), the submodule case of the start invariant."),
   ref="8 (C17)"),
 "C04": dict(
   text=("Deductive proof, with loop invariants over nondeterministic map iteration, of the tree-building operations on the real functions: add (files the "
         "child, points it back, never overwrites, reports a taken key), delete, dup (the copy and everything below it is fresh, re-parented, same keys, "
         "names and kinds; list attributes and rpc input/output copied; nothing that existed is written; terminates), merge (never overwrites, grafted "
         "children fresh and re-parented with the given namespace/prefix, collisions reported, the source tree -- slice backing arrays included -- "
         "untouched), FixChoice's wrapping loop (every child of a choice becomes a case, fresh case entries correctly linked), importErrors, newError, "
         "errorf/addError; Find's lazily created input/output are linked into the tree. Bounded (labelled): a tree-shape walker over every entry of 19 "
         "module sets in all load orders, incl. late-arising errors, augments written before their target exists, augments into lazily created "
         "input/output and into second expansions of a grouping. Not decided: that ToEntry (reflection) establishes the shape, checkErrors/GetErrors "
         "as contracts (callback), the recursion of FixChoice."),
   ref="8 (C04)"),
 "C19": dict(
   text=("This family is silent on schedules; what is decided, per function and for all inputs, is the discipline that makes the property true: ghost "
         "lock state for sync.Mutex/RWMutex (no self-deadlock, unlock only what is held, every function returns with the locks as it found them), "
         "guarded-field obligations (byNS under nsMu, entryCache under entryCacheMu with the write lock for writes, the typedef dictionary under mu, writes "
         "to the identity dictionary under its mu) at every access in every function that touches them, read-only frames on ReadOnly, Namespace, Path, "
         "DefaultValues, SingleDefaultValue, GetWhenXPath, Modules (a memo added to one of them fails a frame obligation), and a go/ssa scan that every "
         "package-level variable of the packages is written by package initialisation only. Bounded (labelled): a race-detector "
         "run of concurrent readers and independent pipelines compared with the sequential result. Not decided: interleavings themselves; reads of the "
         "identity dictionary outside its lock rely on phase separation (after Process), which is not checked."),
   ref="8 (C19)"),
 "C01": dict(
   text=("Deductive no-panic proof by a zero-annotation sweep: for 353 of the 454 functions of pkg/yang and pkg/indent every implicit run-time check "
         "(nil dereference, index and slice bounds, write to a nil map, failed type assertion, division by zero, explicit panic) and every callee "
         "precondition is a discharged obligation under at most a non-nil receiver (contracts generated once, committed, never regenerated by the "
         "check), plus the hand-written safe contracts of the other properties; termination measures on pow10, Contains, ReadOnly, Namespace, RootNode, "
         "dup, importErrors, Find's root walk. Callers must not hand ToEntry a typed-nil module; lock balance on every return. Bounded (labelled): 85 hostile inputs (cyclic typedefs/groupings/identities, augments of leaves, absent "
         "modules, garbage) each loaded, processed and read back in a child process under a time limit. Not decided: the reflection-driven builder, "
         "ToEntry, Type.resolve, ApplyDeviate and the lexer state machine as a whole (their functions stay outside the safe set), stack depth."),
   ref="8 (C01)"),
 "C11": dict(
   text=("Deductive proof of the parts that are per-call contracts: the identity dictionary is keyed by <name of the module the identity belongs to>:<name> "
         "(modulePrefixedName, newResolvedIdentity), findIdentityBase returns the dictionary entry under that key for a local base and under the name of "
         "the module the DECLARING (sub)module imports under the prefix for a remote one, the order of a Values list is by name with ties broken by that "
         "key; appendIfNotIn keeps the list in place, adds the identity at most once and never "
         "duplicates; addChildren returns the list unchanged for an identity that is already collected (the shortcut that ends the walk on a cycle) and "
         "preserves the well-formedness of every identity's value list. 'Exactly the transitive set' needs reachability, which is not first-order, and "
         "the recursive bookkeeping needs a typed allocation predicate the memory model lacks: that clause is a bounded stand-in (labelled): 60 random "
         "derivation graphs over up to 3 modules and submodules with multiple bases, equal names, shared own prefixes and import prefixes that denote "
         "different modules in different importers, compared with an independently computed "
         "closure, four runs each for order determinism, identityref leaves checked, undefined bases and cycles must be errors."),
   ref="8 (C11)"),
 "C05": dict(
   text=("Deductive proof that the comparison used to sort error lists is order-independent: nless equals the spec nl (numbers by value, a number before "
         "other text, text lexicographically), nl is a total preorder (antisymmetry, transitivity, reflexivity as machine-checked lemmas), "
         "sortedErrors.Less equals the field-wise order lessE for every pair of texts (loop invariant over the split fields), and lessE is irreflexive, "
         "asymmetric and transitive (lemmas); the identity order comparator breaks ties by module name; Modules.add lets the bare name denote the greater "
         "full name for every load order (one open finding, see C13). The hyperproperty itself -- same outcome across runs and load orders -- is a bounded stand-in (labelled): "
         "5 module sets with types, identities, augments, deviations and several errors, all load orders x 3 repetitions, exact comparison of the error "
         "list or of a complete rendering. Assumed: sort.Sort, strings.SplitN, strconv.Atoi. Not decided: errorSort's duplicate removal, the 37 map-range "
         "loops as commutation obligations."),
   ref="8 (C05)"),
}

# Sentences added after the second and third rounds of seeded changes (appended to the texts above).
ADD = {
 "C14": " Added: explicit values and positions are read as decimal integers (ParseInt repaired).",
 "C15": " Added: the assumed contracts of strconv.ParseUint / ParseInt carry the base, so ParseInt's clause pins the decimal reading (the defect this exposed is repaired); asRangeInt under contract.",
 "C10": " Added: ParseInt reads decimal integers only; the assumed contracts of strconv carry the base; fixed texts in the stand-in (010..020 = 10..20; 0x10, 1_000, '.', '1.', '.5' refused). In Type.resolve the call sites of parseChildRanges are under assertion (a range narrows the range inherited so far, a length the length inherited so far, each from the type derived from or the base type's own); the stand-in also builds schema-level chains with pass-through typedefs.",
 "C01": " Added: the cursor of the string state of the lexer stays inside the input also after the error budget emptied it (adderror proved, ErrorfAt/emitText assumed because they send on the token channel), Entry.Modules / InstantiatingModule / Find no longer assume a tree rooted in a module (a grouping tree handed out by StoreUses is read back too); the corpus has 94 inputs, each with and without StoreUses, read back through Find, FindNode, Modules, Augmented. A method call on an interface without contract also gets a nil-receiver obligation; asRangeInt hands out a value of the range asked for or nothing.",
 "C02": " Added: pattern mode is on for the argument of a pattern statement only (call-site assertions in parser.nextStatement); the stand-in writes tabs before the opening quote and inside comments, pattern blocks, '+/' tokens and comment-opener corner cases.",
 "C03": " Added: isPrefixedKeyword under contract; the stand-in also offers words that are no keyword at all (the names of the fields every node has, ':x', 'x:') under module, submodule, input and an unnamed container, and every single-fault text again on a set that has just refused other texts.",
 "C04": " Added: the case FixChoice implies is a plain case (no list attributes, type, rpc part, key or errors); every augment of a pass is merged, refused with an error, reported or kept (ghost call counters), never silently skipped; the stand-in walks every module by object (two revisions of one name are two trees), shorthand lists and leaf-lists under choices, augments whose body is a missing grouping, bare actions.",
 "C05": " Added: a fixed set with the same identity in two revisions of one module (an open finding: KNOWN-FINDING line, see C11). errorSort is under contract: every sorted error is kept or deeply equal to the one kept last, what is kept stays, a list of at most one error comes back as it is (sort.Sort and reflect.DeepEqual assumed). Augments are applied module by module in the order of the modules' full names (fix recorded); the stand-in loads sets in which two modules bring the same node to one target, in every load order, and compares what is refused.",
 "C06": " Added: fixed cases for the extension list of a uses entry (own array per use) and for a prefix that only an included submodule binds (must be an error). Repaired on the way: a grouping defined inside grouping k may use k; a submodule uses the groupings of its module.",
 "C07": " Added: merge is called only when none of the augment's names is taken in the target (never half applied; taken / refuse under contract), not for anydata / anyxml targets; every augment of a pass is merged, refused, reported or kept (ghost call counters). Process's augment loops are under contract as well: every module still listed gets a pass in every round, is dropped from the list exactly when none of its augments was left over, and what is left at the end gets the pass that reports. The rounds end only when no module with augments is left or after a whole round that applied nothing (exit_ensures / break_ensures on the retry loop).",
 "C08": " Added: the loop may also write the rpc input/output of the target's parent (not-supported on an rpc's input or output); fixed cases for that and for two revisions of one deviating module (both applied, in every run). Now also proved: the values written by the loop (config, mandatory, defaults on replace / add / delete, element bounds, units, type) are those of the deviate statement, per iteration. writtenBefore orders by line and then by column (two deviate statements on one line are in written order).",
 "C09": " Added: identityref look-ups and the foreign-name look-up are pinned by call-site assertions (the right function, from the right module, for the type statement itself). From a submodule the binding step also reaches the module it belongs to and that module's submodules (repaired defect; the former open finding is closed).",
 "C11": " Added: identityref types (direct and through typedefs) look their base up with findIdentityBase from the module they are written in (call-site assertions); the stand-in has identityref leaves in every module and random derivation rings with ordinary derivations around them, 6 runs each; one open finding (identities of two revisions of one module collide) with its bounded case. A derivation cycle is reported: an identity among its own derivations has an error appended before the list is stored (call-site assertion and loop invariant in resolveIdentities).",
 "C12": " Added: ro is now the statement read literally (says-false OR in-output; the defect this exposed is repaired), inOutput under contract; Entry.Modules / InstantiatingModule answer for trees not built from a module; own stand-in: ReadOnly and namespace of every node of random schemas (actions below config false / true, config inside outputs, augments) against the model, plus 18 fixed paths. A namespace denotes one module NAME (several revisions of a module share it): FindModuleByNamespace answers with the latest (repaired defect).",
 "C13": " Added: process collects one module per key of the module map and links every collected module (ghost call counter on include); stand-ins: file selection for a module name with a dot, several revisions of one module side by side each compared with what it is alone, and two more open findings (two revisions including one submodule; typedefs / identities of a nested include) with their bounded cases. findInDir is under contract: the result is empty, the exact name, or a file of this directory whose name is the module name followed by what the date-suffix expression matches, and nothing that existed is written (assumed contracts on ioutil, fs, strings, regexp, filepath, sort).",
 "C16": " Added: a foreign type name is looked up and reported for the type statement itself (call-site assertion in Type.resolve); every position named in any error of the semantic-fault texts must be the start of a statement; four foreign-prefix faults. updateCursor is under contract (range over a string is modelled now): every skipped character moves the tab-expanded column as next does, lines and columns are counted in characters.",
 "C17": " Added (proved): an import prefix denotes the module the set holds under the imported name at the time of the call (no stale binding from an earlier run).",
 "C18": " Added: every run also binds imports and includes afresh (call-site assertion: includes empty before process), a module that is filed empties what the namespace lookup remembers (Modules.add), ClearEntryCache also resets the merge marks; histories over layered import sets (so that intermediate runs succeed), longer identity chains, refused texts holding two revisions of one module; four fixed histories (namespace lookup after a later load, imports bound by an earlier run, search path after a refused file, ClearEntryCache after Process) -- all four were defects and are repaired. Process's augment loops (see C07) and a derivation cycle now and then in the histories (reported by every run).",
 "C19": " Added: iw.Write changes line-state flags only (frame obligation; assumed contract on io.Writer), so a package-level buffer added to it fails; the race stand-in also prints concurrently.",
 "C20": " Added: the frame of Write (line-state flags of indenting writers and nothing else that existed).",
}
for _k, _v in ADD.items():
    CLAIMED[_k]["text"] += _v

NOT_REACHED = {
}

def main():
    props = [json.loads(l) for l in open("/verif/properties.jsonl")]
    checks, na = [], []
    for p in props:
        pid = p["id"]
        if pid in CLAIMED:
            c = CLAIMED[pid]
            checks.append({
                "property_id": pid,
                "quick_cmd": f"./check {pid} --tier quick",
                "thorough_cmd": f"./check {pid} --tier thorough",
                "evidence_file": f"/verif/evidence/{pid}.json",
                "replay_cmd_template": f"./check {pid} --replay {{path}}",
                "engine": "govc",
                "level_claimed": {"category": "proof", "text": c["text"], "design_ref": "DESIGN.md section " + c["ref"]},
                "level_note": TRUST,
                "technique": "contract-based deductive verification: weakest-precondition VCs over go/ssa of the real functions, contracts in //@ comment files, discharged by z3/cvc5",
            })
        else:
            na.append({"property_id": pid, "reason": NOT_REACHED.get(pid, "not reached yet: no contract carrying this property is discharged on the current tree (see DESIGN.md section 1 for the plan)")})
    m = {
        "version": 1,
        "setup_cmd": "./build.sh",
        "hooks": {
            "guard": "verif",
            "enable": "go/packages loads /repo with -tags=verif; the only guarded files are comment-only contract files (pkg/*/zz_contracts_verif.go)",
            "baseline_off_cmd": "cd /repo && GOFLAGS=-mod=mod GOPROXY=off GOSUMDB=off go test -vet=off -count=1 ./...",
            "source_commits": [c.split()[0] for c in HOOK_COMMITS],
            "add_only": True,
        },
        "engines": [{"name": "govc", "path": "/verif/govc", "serves_properties": sorted(CLAIMED),
                     "kind_free_text": "VC generator over go/ssa (forward symbolic execution in passive form, loop invariants, modular calls) + SMT portfolio"}],
        "checks": checks,
        "not_applicable": na,
        "notes": "See DESIGN.md. Known findings: KNOWN_FINDINGS.txt. Contracts: /repo/pkg/*/zz_contracts_verif.go (build tag verif), assumed stdlib contracts: contracts/stdlib/*.spec.",
    }
    json.dump(m, open("/verif/MANIFEST.json", "w"), indent=1)
    print("claimed", sorted(CLAIMED), "not applicable", len(na))

main()
