#!/bin/bash
# Runs the quick (or given) tier of every claimed check; prints one line each.
cd /verif
tier=${1:-quick}
rc=0
for p in $(python3 -c "import json;print(' '.join(c['property_id'] for c in json.load(open('MANIFEST.json'))['checks']))"); do
  out=$(./check $p --tier $tier 2>&1); e=$?
  echo "$p exit=$e $(echo "$out" | tail -1)"
  echo "$out" | grep -E "^(VIOLATION|KNOWN-FINDING)" | cut -c1-250
  [ $e -ne 0 ] && rc=1
done
exit $rc
