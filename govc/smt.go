package main

// SMT-LIB sorts, terms and the mapping from Go types to sorts.
//
// Integers are mathematical Int with Go's wrap-around written out explicitly.
// Pointers, maps, channels and function values are Int references (0 = nil);
// named structs are SMT datatypes; slices and interfaces are the two generic
// datatypes Slice and Iface.

import (
	"fmt"
	"go/types"
	"math/big"
	"sort"
	"strings"
)

func S(op string, args ...string) string {
	if len(args) == 0 {
		return op
	}
	return "(" + op + " " + strings.Join(args, " ") + ")"
}

func And(xs ...string) string {
	var ys []string
	for _, x := range xs {
		if x == "true" || x == "" {
			continue
		}
		if x == "false" {
			return "false"
		}
		ys = append(ys, x)
	}
	switch len(ys) {
	case 0:
		return "true"
	case 1:
		return ys[0]
	}
	return S("and", ys...)
}

func Or(xs ...string) string {
	var ys []string
	for _, x := range xs {
		if x == "false" || x == "" {
			continue
		}
		if x == "true" {
			return "true"
		}
		ys = append(ys, x)
	}
	switch len(ys) {
	case 0:
		return "false"
	case 1:
		return ys[0]
	}
	return S("or", ys...)
}

func Not(x string) string {
	switch x {
	case "true":
		return "false"
	case "false":
		return "true"
	}
	return S("not", x)
}

func Imp(a, b string) string {
	if a == "true" {
		return b
	}
	if b == "true" {
		return "true"
	}
	return S("=>", a, b)
}

func Ite(c, a, b string) string {
	if c == "true" {
		return a
	}
	if c == "false" {
		return b
	}
	if a == b {
		return a
	}
	return S("ite", c, a, b)
}

func IntLit(n *big.Int) string {
	if n.Sign() < 0 {
		return "(- " + new(big.Int).Neg(n).String() + ")"
	}
	return n.String()
}

func IntLit64(n int64) string { return IntLit(big.NewInt(n)) }

var symRepl = strings.NewReplacer("(", "_", ")", "_", " ", "_", "*", "p", "[", "_", "]", "_", ".", "_", "/", "_", ":", "_", "$", "_", ",", "_", "-", "_", "{", "_", "}", "_", "#", "_", "@", "_")

func sym(s string) string { return symRepl.Replace(s) }

// ---------------------------------------------------------------------------

// Sorts keeps the datatype declarations generated so far.
type Sorts struct {
	structName map[string]string // types.Type string -> datatype name
	decls      []string          // datatype declarations in dependency order
	fields     map[string][]fieldInfo
	byName     map[string]*types.Struct
	used       map[string]bool
}

type fieldInfo struct {
	Name string
	Sel  string // selector function
	Sort string
	Type types.Type
}

func newSorts() *Sorts {
	return &Sorts{structName: map[string]string{}, fields: map[string][]fieldInfo{}, byName: map[string]*types.Struct{}, used: map[string]bool{}}
}

const preamble = `(declare-sort Str 0)
(declare-datatypes ((Slice 0)) (((mk-slice (s-arr Int) (s-off Int) (s-len Int) (s-cap Int)))))
(declare-datatypes ((Iface 0)) (((mk-iface (i-tag Int) (i-val Int)))))
(define-fun tdiv ((x Int) (y Int)) Int (ite (>= x 0) (ite (> y 0) (div x y) (- (div x (- y)))) (ite (> y 0) (- (div (- x) y)) (div (- x) (- y)))))
(define-fun tmod ((x Int) (y Int)) Int (- x (* y (tdiv x y))))
(define-fun wrapu ((x Int) (m Int)) Int (mod x m))
(define-fun wraps ((x Int) (h Int)) Int (- (mod (+ x h) (* 2 h)) h))
(declare-const str_empty Str)
`

// strAxioms is included only when the VC mentions a string operation, so that
// purely arithmetic VCs stay quantifier-free (and failing ones yield models).
const strAxioms = `(declare-fun slen (Str) Int)
(declare-fun sbyte (Str Int) Int)
(declare-fun scat (Str Str) Str)
(declare-fun ssub (Str Int Int) Str)
(declare-fun strlt (Str Str) Bool)
(assert (= (slen str_empty) 0))
(assert (forall ((s Str)) (! (>= (slen s) 0) :pattern ((slen s)))))
(assert (forall ((s Str)) (! (=> (= (slen s) 0) (= s str_empty)) :pattern ((slen s)))))
(assert (forall ((s Str) (i Int)) (! (and (<= 0 (sbyte s i)) (<= (sbyte s i) 255)) :pattern ((sbyte s i)))))
(assert (forall ((a Str) (b Str)) (! (= (slen (scat a b)) (+ (slen a) (slen b))) :pattern ((scat a b)))))
(assert (forall ((s Str) (i Int) (j Int)) (! (=> (and (<= 0 i) (<= i j) (<= j (slen s))) (= (slen (ssub s i j)) (- j i))) :pattern ((ssub s i j)))))
(assert (forall ((s Str) (i Int) (j Int) (k Int)) (! (=> (and (<= 0 i) (<= i j) (<= j (slen s)) (<= 0 k) (< k (- j i))) (= (sbyte (ssub s i j) k) (sbyte s (+ i k)))) :pattern ((sbyte (ssub s i j) k)))))
(assert (forall ((s Str)) (! (= (ssub s 0 (slen s)) s) :pattern ((ssub s 0 (slen s))))))
(assert (forall ((a Str) (b Str) (k Int)) (! (=> (and (<= 0 k) (< k (slen a))) (= (sbyte (scat a b) k) (sbyte a k))) :pattern ((sbyte (scat a b) k)))))
(assert (forall ((a Str) (b Str) (k Int)) (! (=> (and (<= (slen a) k) (< k (+ (slen a) (slen b)))) (= (sbyte (scat a b) k) (sbyte b (- k (slen a))))) :pattern ((sbyte (scat a b) k)))))
(assert (forall ((a Str)) (! (not (strlt a a)) :pattern ((strlt a a)))))
(assert (forall ((a Str) (b Str)) (! (or (= a b) (strlt a b) (strlt b a)) :pattern ((strlt a b)))))
(assert (forall ((a Str) (b Str)) (! (not (and (strlt a b) (strlt b a))) :pattern ((strlt a b)))))
(assert (forall ((a Str) (b Str) (c Str)) (! (=> (and (strlt a b) (strlt b c)) (strlt a c)) :pattern ((strlt a b) (strlt b c)))))
(assert (forall ((a Str)) (! (or (= a str_empty) (strlt str_empty a)) :pattern ((strlt str_empty a)))))
`

// lenBound is the assumed upper bound on every slice, string and map length
// (address-space bound on amd64/arm64; listed as an assumption in the evidence).
const lenBound = "281474976710656" // 2^48

func (e *Engine) sortOf(t types.Type) string {
	switch u := t.Underlying().(type) {
	case *types.Basic:
		switch {
		case u.Info()&types.IsBoolean != 0:
			return "Bool"
		case u.Info()&types.IsInteger != 0:
			return "Int"
		case u.Info()&types.IsString != 0:
			return "Str"
		case u.Info()&types.IsFloat != 0:
			return "Real"
		case u.Kind() == types.UnsafePointer:
			return "Int"
		case u.Kind() == types.UntypedNil:
			return "Int"
		}
		return "Int"
	case *types.Pointer, *types.Map, *types.Chan, *types.Signature:
		return "Int"
	case *types.Slice:
		return "Slice"
	case *types.Interface:
		return "Iface"
	case *types.Struct:
		return e.structSort(t, u)
	case *types.Array:
		return "(Array Int " + e.sortOf(u.Elem()) + ")"
	case *types.Tuple:
		return "Tuple!"
	}
	return "Int"
}

func (e *Engine) structSort(t types.Type, u *types.Struct) string {
	key := types.TypeString(t, nil)
	if n, ok := e.sorts.structName[key]; ok {
		return n
	}
	var base string
	if nt, ok := t.(*types.Named); ok {
		base = "S_" + sym(nt.Obj().Name())
		if nt.Obj().Pkg() != nil && !e.isTargetPkg(nt.Obj().Pkg()) {
			base = "S_" + sym(nt.Obj().Pkg().Name()) + "_" + sym(nt.Obj().Name())
		}
	} else {
		base = fmt.Sprintf("S_anon%d", len(e.sorts.structName))
	}
	name := base
	for i := 2; e.sorts.used[name]; i++ {
		name = fmt.Sprintf("%s_%d", base, i)
	}
	e.sorts.used[name] = true
	e.sorts.structName[key] = name
	e.sorts.byName[name] = u
	var fis []fieldInfo
	var parts []string
	seenSel := map[string]bool{}
	for i := 0; i < u.NumFields(); i++ {
		f := u.Field(i)
		fs := e.sortOf(f.Type())
		sel := fmt.Sprintf("%s.%s", name, sym(f.Name()))
		if f.Name() == "_" || seenSel[sel] {
			// blank fields (a struct may have several, e.g. sync/atomic's
			// Pointer[T]) need accessor names of their own
			sel = fmt.Sprintf("%s.%s!%d", name, sym(f.Name()), i)
		}
		seenSel[sel] = true
		fis = append(fis, fieldInfo{Name: f.Name(), Sel: sel, Sort: fs, Type: f.Type()})
		parts = append(parts, fmt.Sprintf("(%s %s)", sel, fs))
	}
	e.sorts.fields[name] = fis
	if len(parts) == 0 {
		e.sorts.decls = append(e.sorts.decls, fmt.Sprintf("(declare-datatypes ((%s 0)) (((mk-%s))))", name, name))
	} else {
		e.sorts.decls = append(e.sorts.decls, fmt.Sprintf("(declare-datatypes ((%s 0)) (((mk-%s %s))))", name, name, strings.Join(parts, " ")))
	}
	return name
}

func (e *Engine) structFields(t types.Type) []fieldInfo {
	u, ok := t.Underlying().(*types.Struct)
	if !ok {
		return nil
	}
	n := e.structSort(t, u)
	return e.sorts.fields[n]
}

// zero value term of a Go type.
func (e *Engine) zero(t types.Type) string {
	switch u := t.Underlying().(type) {
	case *types.Basic:
		switch {
		case u.Info()&types.IsBoolean != 0:
			return "false"
		case u.Info()&types.IsString != 0:
			return "str_empty"
		case u.Info()&types.IsFloat != 0:
			return "0.0"
		}
		return "0"
	case *types.Slice:
		return "(mk-slice 0 0 0 0)"
	case *types.Interface:
		return "(mk-iface 0 0)"
	case *types.Struct:
		n := e.structSort(t, u)
		fis := e.sorts.fields[n]
		if len(fis) == 0 {
			return "mk-" + n
		}
		var args []string
		for _, f := range fis {
			args = append(args, e.zero(f.Type))
		}
		return S("mk-"+n, args...)
	case *types.Array:
		return fmt.Sprintf("((as const %s) %s)", e.sortOf(t), e.zero(u.Elem()))
	}
	return "0"
}

// intRange returns the value range of an integer type.
func intRange(t types.Type) (lo, hi *big.Int, ok bool) {
	b, isb := t.Underlying().(*types.Basic)
	if !isb || b.Info()&types.IsInteger == 0 {
		return nil, nil, false
	}
	one := big.NewInt(1)
	pow := func(n uint) *big.Int { return new(big.Int).Lsh(one, n) }
	var w uint
	signed := b.Info()&types.IsUnsigned == 0
	switch b.Kind() {
	case types.Int8, types.Uint8:
		w = 8
	case types.Int16, types.Uint16:
		w = 16
	case types.Int32, types.Uint32:
		w = 32
	case types.UntypedInt, types.UntypedRune:
		return nil, nil, false
	default:
		w = 64
	}
	if signed {
		return new(big.Int).Neg(pow(w - 1)), new(big.Int).Sub(pow(w-1), one), true
	}
	return big.NewInt(0), new(big.Int).Sub(pow(w), one), true
}

func inRange(x string, t types.Type) string {
	lo, hi, ok := intRange(t)
	if !ok {
		return "true"
	}
	return And(S("<=", IntLit(lo), x), S("<=", x, IntLit(hi)))
}

func wrapTo(x string, t types.Type) string {
	lo, hi, ok := intRange(t)
	if !ok {
		return x
	}
	// identity inside the range, explicit wrap-around outside (equivalent to the
	// plain modulus, but the common case needs no modular reasoning)
	if lo.Sign() == 0 {
		m := new(big.Int).Add(hi, big.NewInt(1))
		return Ite(And(S("<=", "0", x), S("<=", x, hi.String())), x, S("wrapu", x, m.String()))
	}
	h := new(big.Int).Add(hi, big.NewInt(1))
	return Ite(And(S("<=", IntLit(lo), x), S("<=", x, hi.String())), x, S("wraps", x, h.String()))
}

// typeInv lists facts true of every well-typed value of type t held in term x:
// integer ranges, slice header shape, reference bounds. alloc is the term of
// the current allocation watermark ("" = do not bound references).
func (e *Engine) typeInv(x string, t types.Type, alloc string, depth int) []string {
	var out []string
	switch u := t.Underlying().(type) {
	case *types.Basic:
		if r := inRange(x, t); r != "true" {
			out = append(out, r)
		}
	case *types.Pointer, *types.Map, *types.Chan, *types.Signature:
		out = append(out, S("<=", "0", x))
		if alloc != "" {
			out = append(out, S("<=", x, alloc))
		}
	case *types.Slice:
		out = append(out, S("<=", "0", S("s-arr", x)), S("<=", "0", S("s-off", x)), S("<=", "0", S("s-len", x)),
			S("<=", S("s-len", x), S("s-cap", x)), S("<=", S("s-cap", x), lenBound),
			S("=>", S("=", S("s-arr", x), "0"), S("=", S("s-cap", x), "0")),
			S("<=", S("s-off", x), lenBound))
		if alloc != "" {
			out = append(out, S("<=", S("s-arr", x), alloc))
		}
	case *types.Interface:
		out = append(out, S("<=", "0", S("i-tag", x)), S("<=", "0", S("i-val", x)),
			S("=>", S("=", S("i-tag", x), "0"), S("=", S("i-val", x), "0")))
		if alloc != "" {
			out = append(out, S("<=", S("i-val", x), alloc))
		}
	case *types.Struct:
		if depth > 3 {
			return nil
		}
		for _, f := range e.structFields(t) {
			out = append(out, e.typeInv(S(f.Sel, x), f.Type, alloc, depth+1)...)
		}
	case *types.Array:
		_ = u
	}
	return out
}

// ---------------------------------------------------------------------------
// string literals

func (e *Engine) strLit(s string) string {
	if s == "" {
		return "str_empty"
	}
	if n, ok := e.strLits[s]; ok {
		return n
	}
	n := fmt.Sprintf("str_%d", len(e.strLits)+1)
	e.strLits[s] = n
	e.strOrder = append(e.strOrder, s)
	return n
}

func (e *Engine) strLitDecls(axioms bool) []string {
	var out []string
	var names []string
	for _, s := range e.strOrder {
		n := e.strLits[s]
		names = append(names, n)
		out = append(out, fmt.Sprintf("(declare-const %s Str) ; %q", n, s))
		if !axioms {
			continue
		}
		out = append(out, fmt.Sprintf("(assert (= (slen %s) %d))", n, len(s)))
		if len(s) <= 24 {
			for i := 0; i < len(s); i++ {
				out = append(out, fmt.Sprintf("(assert (= (sbyte %s %d) %d))", n, i, s[i]))
			}
		}
	}
	if len(names) > 0 {
		names = append(names, "str_empty")
		out = append(out, "(assert (distinct "+strings.Join(names, " ")+"))")
		if !axioms {
			return out
		}
		// total order facts between literals
		sorted := append([]string{}, e.strOrder...)
		sort.Strings(sorted)
		prev := "str_empty"
		for _, s := range sorted {
			out = append(out, fmt.Sprintf("(assert (strlt %s %s))", prev, e.strLits[s]))
			prev = e.strLits[s]
		}
	}
	return out
}
