package main

// Translation of contract expressions to SMT terms.

import (
	"fmt"
	"go/types"
	"golang.org/x/tools/go/ssa"
	"sort"
	"strings"
)

type TV struct {
	T  string
	Ty types.Type // nil = untyped nil
}

type Heap interface{ Get(key string) string }

// paramHeap is the heap seen inside a spec function body: every key is a
// parameter of the defined function.
type paramHeap struct {
	vc   *FuncVC
	used map[string]bool
	sfx  string
}

func (h *paramHeap) Get(key string) string {
	h.used[key] = true
	return "h!" + sym(key) + h.sfx
}

type TEnv struct {
	vc          *FuncVC
	f           *Frame
	pkg         string
	vars        map[string]TV
	lookup      func(string) (TV, bool)
	lookupOld   func(string) (TV, bool)
	lookupEntry func(string) (TV, bool) // variables as they were when the loop was entered
	visitedOf   func(h Heap) string
	loopEntry   Heap
	cur, old    Heap
	results     []TV
	resultNames []string
	allocOld    string
	inSpecFn    string
}

var tInt = types.Typ[types.Int]
var tBool = types.Typ[types.Bool]
var tString = types.Typ[types.String]

func (env *TEnv) with(name string, tv TV) *TEnv {
	n := *env
	n.vars = map[string]TV{}
	for k, v := range env.vars {
		n.vars[k] = v
	}
	n.vars[name] = tv
	return &n
}

func isIntType(t types.Type) bool {
	if t == nil {
		return false
	}
	b, ok := t.Underlying().(*types.Basic)
	return ok && b.Info()&types.IsInteger != 0
}

func isBoolType(t types.Type) bool {
	if t == nil {
		return false
	}
	b, ok := t.Underlying().(*types.Basic)
	return ok && b.Info()&types.IsBoolean != 0
}

func isStringType(t types.Type) bool {
	if t == nil {
		return false
	}
	b, ok := t.Underlying().(*types.Basic)
	return ok && b.Info()&types.IsString != 0
}

func (env *TEnv) nilOf(t types.Type) string {
	return env.vc.eng.zero(t)
}

func (env *TEnv) tr(e Expr) (TV, error) {
	vc := env.vc
	eng := vc.eng
	switch x := e.(type) {
	case *EInt:
		return TV{IntLit(x.V), tInt}, nil
	case *EBool:
		if x.V {
			return TV{"true", tBool}, nil
		}
		return TV{"false", tBool}, nil
	case *EStr:
		return TV{eng.strLit(x.V), tString}, nil
	case *ENil:
		return TV{"0", nil}, nil
	case *EIdent:
		if tv, ok := env.vars[x.Name]; ok {
			return tv, nil
		}
		if x.Name == "result" {
			if len(env.results) == 0 {
				return TV{}, fmt.Errorf("result used where no result is available")
			}
			return env.results[0], nil
		}
		if strings.HasPrefix(x.Name, "result") && len(x.Name) == 7 && x.Name[6] >= '0' && x.Name[6] <= '9' {
			i := int(x.Name[6] - '0')
			if i < len(env.results) {
				return env.results[i], nil
			}
		}
		for i, n := range env.resultNames {
			if n == x.Name && n != "" && i < len(env.results) {
				return env.results[i], nil
			}
		}
		if env.lookup != nil {
			if tv, ok := env.lookup(x.Name); ok {
				return tv, nil
			}
		}
		// package-level constant or variable
		if tv, ok := env.pkgObject(x.Name); ok {
			return tv, nil
		}
		return TV{}, fmt.Errorf("unknown identifier %s", x.Name)
	case *EUn:
		a, err := env.tr(x.X)
		if err != nil {
			return TV{}, err
		}
		if x.Op == "!" {
			return TV{Not(a.T), tBool}, nil
		}
		return TV{S("-", a.T), tInt}, nil
	case *EBin:
		return env.trBin(x)
	case *ECond:
		c, err := env.tr(x.C)
		if err != nil {
			return TV{}, err
		}
		a, err := env.tr(x.A)
		if err != nil {
			return TV{}, err
		}
		b, err := env.tr(x.B)
		if err != nil {
			return TV{}, err
		}
		ty := a.Ty
		if ty == nil {
			ty = b.Ty
			if ty != nil {
				a.T = env.nilOf(ty)
			}
		} else if b.Ty == nil {
			b.T = env.nilOf(ty)
		}
		return TV{Ite(c.T, a.T, b.T), ty}, nil
	case *EField:
		// package-qualified identifier?
		if id, ok := x.X.(*EIdent); ok {
			if _, isVar := env.vars[id.Name]; !isVar {
				if tp := eng.pkgByNm[id.Name]; tp != nil {
					if _, shadow := env.lookupAny(id.Name); !shadow {
						if tv, ok := env.pkgObjectIn(tp, x.Name); ok {
							return tv, nil
						}
					}
				}
			}
		}
		a, err := env.tr(x.X)
		if err != nil {
			return TV{}, err
		}
		return env.field(a, x.Name, env.cur)
	case *EIndex:
		a, err := env.tr(x.X)
		if err != nil {
			return TV{}, err
		}
		i, err := env.tr(x.I)
		if err != nil {
			return TV{}, err
		}
		return env.index(a, i, env.cur)
	case *ESlice:
		a, err := env.tr(x.X)
		if err != nil {
			return TV{}, err
		}
		lo := TV{"0", tInt}
		if x.Lo != nil {
			if lo, err = env.tr(x.Lo); err != nil {
				return TV{}, err
			}
		}
		switch a.Ty.Underlying().(type) {
		case *types.Slice:
			hi := TV{S("s-len", a.T), tInt}
			if x.Hi != nil {
				if hi, err = env.tr(x.Hi); err != nil {
					return TV{}, err
				}
			}
			return TV{S("mk-slice", S("s-arr", a.T), S("+", S("s-off", a.T), lo.T), S("-", hi.T, lo.T), S("-", S("s-cap", a.T), lo.T)), a.Ty}, nil
		case *types.Basic:
			hi := TV{S("slen", a.T), tInt}
			if x.Hi != nil {
				if hi, err = env.tr(x.Hi); err != nil {
					return TV{}, err
				}
			}
			return TV{S("ssub", a.T, lo.T, hi.T), tString}, nil
		}
		return TV{}, fmt.Errorf("cannot slice %s", a.Ty)
	case *EQuant:
		n := env
		var decl []string
		bound := map[string]bool{}
		for _, b := range x.Vars {
			bound[b.Name] = true
		}
		for _, b := range x.Vars {
			ty, err := eng.evalType(env.pkg, b.Type)
			if err != nil {
				return TV{}, err
			}
			vn := "q!" + b.Name
			bind := vn
			// A bound integer used to index a slice is re-based so that it occurs
			// bare as the array index (array-property fragment: the solvers
			// instantiate `select a q` with every index term, which they do not
			// when the index is `off + i`).
			if isIntType(ty) {
				if se := findIndexedSlice(x.Body, b.Name, bound); se != nil {
					if stv, err := env.tr(se); err == nil && stv.Ty != nil {
						if _, isSl := stv.Ty.Underlying().(*types.Slice); isSl {
							bind = S("-", vn, S("s-off", stv.T))
						}
					}
				}
			}
			n = n.with(b.Name, TV{bind, ty})
			decl = append(decl, fmt.Sprintf("(%s %s)", vn, eng.sortOf(ty)))
		}
		body, err := n.tr(x.Body)
		if err != nil {
			return TV{}, err
		}
		q := "exists"
		if x.Forall {
			q = "forall"
		}
		bt := body.T
		if len(x.Triggers) > 0 {
			var pats []string
			for _, tr := range x.Triggers {
				var ts []string
				for _, te := range tr {
					tv, err := n.tr(te)
					if err != nil {
						return TV{}, err
					}
					ts = append(ts, tv.T)
				}
				pats = append(pats, ":pattern ("+strings.Join(ts, " ")+")")
			}
			bt = "(! " + bt + " " + strings.Join(pats, " ") + ")"
		}
		return TV{fmt.Sprintf("(%s (%s) %s)", q, strings.Join(decl, " "), bt), tBool}, nil
	case *ELet:
		v, err := env.tr(x.V)
		if err != nil {
			return TV{}, err
		}
		vn := "l!" + x.Name
		n := env.with(x.Name, TV{vn, v.Ty})
		b, err := n.tr(x.Body)
		if err != nil {
			return TV{}, err
		}
		return TV{fmt.Sprintf("(let ((%s %s)) %s)", vn, v.T, b.T), b.Ty}, nil
	case *ETypeIs:
		a, err := env.tr(x.X)
		if err != nil {
			return TV{}, err
		}
		ty, err := eng.evalType(env.pkg, x.Type)
		if err != nil {
			return TV{}, err
		}
		return TV{S("=", S("i-tag", a.T), fmt.Sprint(eng.typeTag(ty))), tBool}, nil
	case *ECall:
		return env.trCall(x)
	}
	return TV{}, fmt.Errorf("unsupported expression %T", e)
}

func (env *TEnv) lookupAny(name string) (TV, bool) {
	if env.lookup == nil {
		return TV{}, false
	}
	return env.lookup(name)
}

func (env *TEnv) pkgObject(name string) (TV, bool) {
	tp := env.vc.eng.pkgByNm[env.pkg]
	if tp == nil {
		return TV{}, false
	}
	return env.pkgObjectIn(tp, name)
}

func (env *TEnv) pkgObjectIn(tp *types.Package, name string) (TV, bool) {
	obj := tp.Scope().Lookup(name)
	switch o := obj.(type) {
	case *types.Const:
		s := o.Val().ExactString()
		if isStringType(o.Type()) {
			return TV{}, false
		}
		if isBoolType(o.Type()) {
			return TV{s, tBool}, true
		}
		if strings.Contains(s, "/") || strings.Contains(s, ".") {
			return TV{}, false
		}
		if strings.HasPrefix(s, "-") {
			s = "(- " + s[1:] + ")"
		}
		return TV{s, o.Type()}, true
	case *types.Var:
		k := "G:" + tp.Name() + "." + name
		env.vc.regKey(k, env.vc.eng.sortOf(o.Type()))
		return TV{env.cur.Get(k), o.Type()}, true
	}
	return TV{}, false
}

func (env *TEnv) field(a TV, name string, h Heap) (TV, error) {
	vc := env.vc
	if a.Ty == nil {
		return TV{}, fmt.Errorf("field %s of nil", name)
	}
	t := a.Ty
	if p, ok := t.Underlying().(*types.Pointer); ok {
		st := p.Elem()
		fis := vc.eng.structFields(st)
		for i, fi := range fis {
			if fi.Name == name {
				k, _ := vc.fieldKey(st, i)
				return TV{S("select", h.Get(k), a.T), fi.Type}, nil
			}
		}
		// embedded?
		return TV{}, fmt.Errorf("no field %s in %s", name, st)
	}
	if _, ok := t.Underlying().(*types.Struct); ok {
		for _, fi := range vc.eng.structFields(t) {
			if fi.Name == name {
				return TV{S(fi.Sel, a.T), fi.Type}, nil
			}
		}
		return TV{}, fmt.Errorf("no field %s in %s", name, t)
	}
	return TV{}, fmt.Errorf("field %s of non-struct %s", name, t)
}

func (env *TEnv) index(a, i TV, h Heap) (TV, error) {
	vc := env.vc
	if a.Ty == nil {
		return TV{}, fmt.Errorf("index of nil")
	}
	switch t := a.Ty.Underlying().(type) {
	case *types.Slice:
		k := vc.elemKey(t.Elem())
		return TV{S("select", S("select", h.Get(k), S("s-arr", a.T)), addOff(S("s-off", a.T), i.T)), t.Elem()}, nil
	case *types.Map:
		kv, _, _ := vc.mapKeys(t)
		return TV{S("select", S("select", h.Get(kv), a.T), i.T), t.Elem()}, nil
	case *types.Basic:
		if t.Info()&types.IsString != 0 {
			return TV{S("sbyte", a.T, i.T), types.Typ[types.Uint8]}, nil
		}
	case *types.Array:
		return TV{S("select", a.T, i.T), t.Elem()}, nil
	}
	return TV{}, fmt.Errorf("cannot index %s", a.Ty)
}

func (env *TEnv) trBin(x *EBin) (TV, error) {
	a, err := env.tr(x.X)
	if err != nil {
		return TV{}, err
	}
	b, err := env.tr(x.Y)
	if err != nil {
		return TV{}, err
	}
	switch x.Op {
	case "&&":
		return TV{And(a.T, b.T), tBool}, nil
	case "||":
		return TV{Or(a.T, b.T), tBool}, nil
	case "==>":
		return TV{Imp(a.T, b.T), tBool}, nil
	case "<==>":
		return TV{S("=", a.T, b.T), tBool}, nil
	case "+":
		if isStringType(a.Ty) {
			return TV{S("scat", a.T, b.T), tString}, nil
		}
		return TV{S("+", a.T, b.T), tInt}, nil
	case "-":
		return TV{S("-", a.T, b.T), tInt}, nil
	case "*":
		return TV{S("*", a.T, b.T), tInt}, nil
	case "/":
		return TV{S("div", a.T, b.T), tInt}, nil
	case "%":
		return TV{S("mod", a.T, b.T), tInt}, nil
	case "<", "<=", ">", ">=":
		if isStringType(a.Ty) {
			switch x.Op {
			case "<":
				return TV{S("strlt", a.T, b.T), tBool}, nil
			case ">":
				return TV{S("strlt", b.T, a.T), tBool}, nil
			case "<=":
				return TV{Not(S("strlt", b.T, a.T)), tBool}, nil
			default:
				return TV{Not(S("strlt", a.T, b.T)), tBool}, nil
			}
		}
		return TV{S(x.Op, a.T, b.T), tBool}, nil
	case "==", "!=":
		eq, err := env.eq(a, b)
		if err != nil {
			return TV{}, err
		}
		if x.Op == "!=" {
			eq = Not(eq)
		}
		return TV{eq, tBool}, nil
	}
	return TV{}, fmt.Errorf("unknown operator %s", x.Op)
}

func (env *TEnv) eq(a, b TV) (string, error) {
	if a.Ty == nil && b.Ty == nil {
		return "true", nil
	}
	if a.Ty == nil {
		a, b = b, a
	}
	if b.Ty == nil {
		switch a.Ty.Underlying().(type) {
		case *types.Interface:
			return S("=", S("i-tag", a.T), "0"), nil
		case *types.Slice:
			return S("=", S("s-arr", a.T), "0"), nil
		case *types.Pointer, *types.Map, *types.Chan, *types.Signature:
			return S("=", a.T, "0"), nil
		}
		return "", fmt.Errorf("cannot compare %s with nil", a.Ty)
	}
	sa, sb := env.vc.eng.sortOf(a.Ty), env.vc.eng.sortOf(b.Ty)
	if sa != sb {
		return "", fmt.Errorf("comparing %s with %s", a.Ty, b.Ty)
	}
	return S("=", a.T, b.T), nil
}

func (env *TEnv) trCall(x *ECall) (TV, error) {
	vc := env.vc
	eng := vc.eng
	argN := func(n int) error {
		if len(x.Args) != n {
			return fmt.Errorf("%s takes %d arguments", x.Fn, n)
		}
		return nil
	}
	switch x.Fn {
	case "old":
		if err := argN(1); err != nil {
			return TV{}, err
		}
		n := *env
		n.cur = env.old
		if env.lookupOld != nil {
			n.lookup = env.lookupOld
		}
		return n.tr(x.Args[0])
	case "len", "cap":
		if err := argN(1); err != nil {
			return TV{}, err
		}
		a, err := env.tr(x.Args[0])
		if err != nil {
			return TV{}, err
		}
		if a.Ty == nil {
			return TV{"0", tInt}, nil
		}
		switch t := a.Ty.Underlying().(type) {
		case *types.Slice:
			if x.Fn == "cap" {
				return TV{S("s-cap", a.T), tInt}, nil
			}
			return TV{S("s-len", a.T), tInt}, nil
		case *types.Basic:
			return TV{S("slen", a.T), tInt}, nil
		case *types.Map:
			_, kd, kl := vc.mapKeys(t)
			if sh, ok := env.cur.(stateHeap); ok {
				// true of every real map in every state: length zero iff no key
				vc.assume(mapLenFact(vc, t, a.T, sh.Get(kl), sh.Get(kd)))
			}
			return TV{S("select", env.cur.Get(kl), a.T), tInt}, nil
		}
		return TV{}, fmt.Errorf("len of %s", a.Ty)
	case "has": // has(m, k): k is in the domain of map m
		if err := argN(2); err != nil {
			return TV{}, err
		}
		m, err := env.tr(x.Args[0])
		if err != nil {
			return TV{}, err
		}
		k, err := env.tr(x.Args[1])
		if err != nil {
			return TV{}, err
		}
		mt, ok := m.Ty.Underlying().(*types.Map)
		if !ok {
			return TV{}, fmt.Errorf("has on non-map %s", m.Ty)
		}
		_, kd, _ := vc.mapKeys(mt)
		return TV{S("select", S("select", env.cur.Get(kd), m.T), k.T), tBool}, nil
	case "fresh": // allocated during the call
		if err := argN(1); err != nil {
			return TV{}, err
		}
		a, err := env.tr(x.Args[0])
		if err != nil {
			return TV{}, err
		}
		t := a.T
		if a.Ty != nil {
			switch a.Ty.Underlying().(type) {
			case *types.Slice:
				t = S("s-arr", a.T)
			case *types.Interface:
				t = S("i-val", a.T)
			}
		}
		return TV{S(">", t, env.allocMark()), tBool}, nil
	case "allocated": // existed at entry (inside a spec function: exists in the state it is evaluated in)
		a, err := env.tr(x.Args[0])
		if err != nil {
			return TV{}, err
		}
		return TV{And(S("<", "0", a.T), S("<=", a.T, env.allocMark())), tBool}, nil
	case "back": // contents of the backing array of a slice, as a value
		a, err := env.tr(x.Args[0])
		if err != nil {
			return TV{}, err
		}
		st, ok := a.Ty.Underlying().(*types.Slice)
		if !ok {
			return TV{}, fmt.Errorf("back of non-slice %s", a.Ty)
		}
		return TV{S("select", env.cur.Get(vc.elemKey(st.Elem())), S("s-arr", a.T)), types.NewArray(st.Elem(), 0)}, nil
	case "upd": // upd(a, i, v): array a with element i replaced
		if err := argN(3); err != nil {
			return TV{}, err
		}
		a, err := env.tr(x.Args[0])
		if err != nil {
			return TV{}, err
		}
		i, err := env.tr(x.Args[1])
		if err != nil {
			return TV{}, err
		}
		v, err := env.tr(x.Args[2])
		if err != nil {
			return TV{}, err
		}
		return TV{S("store", a.T, i.T, v.T), a.Ty}, nil
	case "asptr": // asptr(x, *T): the pointer held by interface value x
		if len(x.Args) != 2 {
			return TV{}, fmt.Errorf("asptr(x, *T)")
		}
		a, err := env.tr(x.Args[0])
		if err != nil {
			return TV{}, err
		}
		ty, err := eng.evalType(env.pkg, exprTypeText(x.Args[1]))
		if err != nil {
			return TV{}, err
		}
		return TV{S("i-val", a.T), ty}, nil
	case "unbox": // unbox(x, T): the non-pointer value of type T boxed in interface value x
		if len(x.Args) != 2 {
			return TV{}, fmt.Errorf("unbox(x, T)")
		}
		a, err := env.tr(x.Args[0])
		if err != nil {
			return TV{}, err
		}
		ty, err := eng.evalType(env.pkg, exprTypeText(x.Args[1]))
		if err != nil {
			return TV{}, err
		}
		k := vc.boxKey(eng.sortOf(ty))
		return TV{S("select", env.cur.Get(k), S("i-val", a.T)), ty}, nil
	case "iface": // iface(p): pointer p as an interface value of its dynamic type
		a, err := env.tr(x.Args[0])
		if err != nil {
			return TV{}, err
		}
		if a.Ty == nil {
			return TV{"(mk-iface 0 0)", types.NewInterfaceType(nil, nil)}, nil
		}
		return TV{Ite(S("=", a.T, "0"), "(mk-iface 0 0)", S("mk-iface", fmt.Sprint(eng.typeTag(a.Ty)), a.T)), types.NewInterfaceType(nil, nil)}, nil
	case "boxptr": // boxptr(p): pointer p converted to an interface exactly as Go does (a nil pointer gives a typed nil, not the nil interface)
		a, err := env.tr(x.Args[0])
		if err != nil {
			return TV{}, err
		}
		if a.Ty == nil {
			return TV{}, fmt.Errorf("boxptr(nil)")
		}
		return TV{S("mk-iface", fmt.Sprint(eng.typeTag(a.Ty)), a.T), types.NewInterfaceType(nil, nil)}, nil
	case "addr": // addr(v): the address of a heap-allocated local variable v
		id, ok := x.Args[0].(*EIdent)
		if !ok || env.f == nil {
			return TV{}, fmt.Errorf("addr(variable)")
		}
		for _, r := range env.f.debug[id.Name] {
			if r.addr {
				if t, ok := env.f.vals[r.val]; ok {
					return TV{t, r.val.Type()}, nil
				}
			}
		}
		return TV{}, fmt.Errorf("addr(%s): not an address-taken heap variable", id.Name)
	case "visited": // visited(k): key k was already produced by the map range of this loop
		if env.visitedOf == nil {
			return TV{}, fmt.Errorf("visited() outside a map-range loop clause")
		}
		k, err := env.tr(x.Args[0])
		if err != nil {
			return TV{}, err
		}
		return TV{S("select", env.visitedOf(env.cur), k.T), tBool}, nil
	case "rangepos": // rangepos(): the byte position of the iterator of this range-over-string loop
		if env.visitedOf == nil {
			return TV{}, fmt.Errorf("rangepos() outside a range-over-string loop clause")
		}
		return TV{env.visitedOf(env.cur), tInt}, nil
	case "loopentry": // loopentry(expr): expr in the heap as it was when the loop was entered
		if env.loopEntry == nil {
			return TV{}, fmt.Errorf("loopentry() outside a loop clause")
		}
		n := *env
		n.cur = env.loopEntry
		return n.tr(x.Args[0])
	case "dyncalls": // dyncalls(): ghost count of calls made through function values so far
		return TV{env.cur.Get(vc.dynKey()), tInt}, nil
	case "calls": // calls("(*T).f"): ghost count of calls of the named function so far (a lower bound: it grows strictly at every direct call)
		if len(x.Args) != 1 {
			return TV{}, fmt.Errorf("calls() takes the name of a function as a string")
		}
		bl, ok := x.Args[0].(*EStr)
		if !ok {
			return TV{}, fmt.Errorf("calls() takes the name of a function as a string")
		}
		nm := bl.V
		vc.mentionedCalls[nm] = true
		return TV{env.cur.Get(vc.callsKey(nm)), tInt}, nil
	case "atentry": // atentry(expr): expr with variables AND heap as they were when the loop was entered
		if env.loopEntry == nil || env.lookupEntry == nil {
			return TV{}, fmt.Errorf("atentry() outside a loop clause")
		}
		n := *env
		n.cur = env.loopEntry
		n.lookup = env.lookupEntry
		return n.tr(x.Args[0])
	case "loopfresh": // loopfresh(x): allocated after the loop was entered
		if env.loopEntry == nil {
			return TV{}, fmt.Errorf("loopfresh() outside a loop clause")
		}
		a, err := env.tr(x.Args[0])
		if err != nil {
			return TV{}, err
		}
		t := a.T
		if a.Ty != nil {
			switch a.Ty.Underlying().(type) {
			case *types.Slice:
				t = S("s-arr", a.T)
			case *types.Interface:
				t = S("i-val", a.T)
			}
		}
		return TV{S(">", t, env.loopEntry.Get(vc.allocKey())), tBool}, nil
	case "arr": // backing array reference of a slice
		a, err := env.tr(x.Args[0])
		if err != nil {
			return TV{}, err
		}
		return TV{S("s-arr", a.T), tInt}, nil
	case "off":
		a, err := env.tr(x.Args[0])
		if err != nil {
			return TV{}, err
		}
		return TV{S("s-off", a.T), tInt}, nil
	case "ref": // reference value as an integer (for ordering / identity arguments)
		a, err := env.tr(x.Args[0])
		if err != nil {
			return TV{}, err
		}
		return TV{a.T, tInt}, nil
	case "dyn": // pointer payload of an interface value, typed: dyn(x, *T)
		return TV{}, fmt.Errorf("dyn not supported")
	case "int", "int64", "uint64", "uint8", "uint":
		return env.tr(x.Args[0])
	case "strlt":
		a, err := env.tr(x.Args[0])
		if err != nil {
			return TV{}, err
		}
		b, err := env.tr(x.Args[1])
		if err != nil {
			return TV{}, err
		}
		return TV{S("strlt", a.T, b.T), tBool}, nil
	}
	// user spec function
	if sf, ok := eng.specFns[x.Fn]; ok {
		info, err := vc.compileSpecFn(sf)
		if err != nil {
			return TV{}, err
		}
		if len(x.Args) != len(sf.Params) {
			return TV{}, fmt.Errorf("%s takes %d arguments", x.Fn, len(sf.Params))
		}
		var args []string
		for i, a := range x.Args {
			tv, err := env.tr(a)
			if err != nil {
				return TV{}, err
			}
			if tv.Ty == nil {
				tv.T = env.nilOf(info.paramTypes[i])
			}
			args = append(args, tv.T)
		}
		for _, k := range info.heapKeys {
			args = append(args, env.cur.Get(k))
		}
		if len(args) == 0 {
			return TV{"sf!" + sf.Name, info.ret}, nil
		}
		return TV{S("sf!"+sf.Name, args...), info.ret}, nil
	}
	return TV{}, fmt.Errorf("unknown function %s in contract", x.Fn)
}

// ---------------------------------------------------------------------------
// spec functions

type specFnInfo struct {
	fn         *SpecFn
	paramTypes []types.Type
	ret        types.Type
	heapKeys   []string
	def        string
	deps       []string
	compiling  bool
}

func (vc *FuncVC) compileSpecFn(sf *SpecFn) (*specFnInfo, error) {
	vc.usedSpec[sf.Name] = true
	if info, ok := vc.specInfo[sf.Name]; ok {
		return info, nil
	}
	eng := vc.eng
	info := &specFnInfo{fn: sf, compiling: true}
	for _, p := range sf.Params {
		ty, err := eng.evalType(sf.Pkg, p.Type)
		if err != nil {
			return nil, fmt.Errorf("%s:%d: %v", sf.File, sf.Line, err)
		}
		info.paramTypes = append(info.paramTypes, ty)
	}
	rt, err := eng.evalType(sf.Pkg, sf.Ret)
	if err != nil {
		return nil, fmt.Errorf("%s:%d: %v", sf.File, sf.Line, err)
	}
	info.ret = rt
	if vc.specInfo == nil {
		vc.specInfo = map[string]*specFnInfo{}
	}
	vc.specInfo[sf.Name] = info
	var decl []string
	for i, p := range sf.Params {
		decl = append(decl, fmt.Sprintf("(p!%s %s)", p.Name, eng.sortOf(info.paramTypes[i])))
	}
	if sf.Uninter || (sf.Opaque && !vc.revealed(sf.Name)) {
		var ss []string
		for _, t := range info.paramTypes {
			ss = append(ss, eng.sortOf(t))
		}
		info.def = fmt.Sprintf("(declare-fun sf!%s (%s) %s)", sf.Name, strings.Join(ss, " "), eng.sortOf(rt))
		info.compiling = false
		vc.specOrder = append(vc.specOrder, sf.Name)
		return info, nil
	}
	// translate the body; iterate until the heap key set is stable (recursion)
	for iter := 0; iter < 4; iter++ {
		ph := &paramHeap{vc: vc, used: map[string]bool{}}
		env := &TEnv{vc: vc, pkg: sf.Pkg, vars: map[string]TV{}, cur: ph, old: ph, inSpecFn: sf.Name}
		for i, p := range sf.Params {
			env.vars[p.Name] = TV{"p!" + p.Name, info.paramTypes[i]}
		}
		body, err := env.tr(sf.Body)
		if err != nil {
			delete(vc.specInfo, sf.Name)
			return nil, fmt.Errorf("%s:%d: spec %s: %v", sf.File, sf.Line, sf.Name, err)
		}
		if body.Ty == nil {
			body.T = eng.zero(rt)
		}
		var keys []string
		for k := range ph.used {
			keys = append(keys, k)
		}
		sort.Strings(keys)
		stable := len(keys) == len(info.heapKeys)
		info.heapKeys = keys
		if stable {
			all := append([]string{}, decl...)
			for _, k := range keys {
				all = append(all, fmt.Sprintf("(h!%s %s)", sym(k), eng.keySort[k]))
			}
			kind := "define-fun"
			if strings.Contains(body.T, "(sf!"+sf.Name+" ") {
				kind = "define-fun-rec"
			}
			info.def = fmt.Sprintf("(%s sf!%s (%s) %s %s)", kind, sf.Name, strings.Join(all, " "), eng.sortOf(rt), body.T)
			break
		}
	}
	info.compiling = false
	vc.specOrder = append(vc.specOrder, sf.Name)
	return info, nil
}

// ---------------------------------------------------------------------------
// modifies targets

func (env *TEnv) modTargets(e Expr) ([]modTarget, error) {
	vc := env.vc
	switch x := e.(type) {
	case *EField:
		// Type.field  (whole field array)  or  obj.field
		if id, ok := x.X.(*EIdent); ok {
			if _, isVar := env.vars[id.Name]; !isVar {
				if _, isP := env.lookupAny(id.Name); !isP {
					ty, err := vc.eng.evalType(env.pkg, id.Name)
					if err == nil {
						fis := vc.eng.structFields(ty)
						for i, fi := range fis {
							if fi.Name == x.Name {
								k, _ := vc.fieldKey(ty, i)
								return []modTarget{{key: k}}, nil
							}
						}
						return nil, fmt.Errorf("no field %s in %s", x.Name, id.Name)
					}
				}
			}
		}
		a, err := env.tr(x.X)
		if err != nil {
			return nil, err
		}
		p, ok := a.Ty.Underlying().(*types.Pointer)
		if !ok {
			return nil, fmt.Errorf("modifies %s: not a pointer", a.Ty)
		}
		fis := vc.eng.structFields(p.Elem())
		for i, fi := range fis {
			if fi.Name == x.Name {
				k, _ := vc.fieldKey(p.Elem(), i)
				return []modTarget{{key: k, idx: a.T}}, nil
			}
		}
		return nil, fmt.Errorf("no field %s", x.Name)
	case *ECall:
		switch x.Fn {
		case "contents": // map contents
			a, err := env.tr(x.Args[0])
			if err != nil {
				return nil, err
			}
			mt, ok := a.Ty.Underlying().(*types.Map)
			if !ok {
				return nil, fmt.Errorf("contents of non-map")
			}
			kv, kd, kl := vc.mapKeys(mt)
			return []modTarget{{key: kv, idx: a.T}, {key: kd, idx: a.T}, {key: kl, idx: a.T}}, nil
		case "cell": // cell(v): the cell of a local variable v that lives on the heap (captured by a closure), or of a free variable of this closure
			id, ok := x.Args[0].(*EIdent)
			if !ok || env.f == nil {
				return nil, fmt.Errorf("cell(variable)")
			}
			for _, fv := range env.f.fn.FreeVars {
				if fv.Name() == id.Name {
					if t, ok := env.f.vals[fv]; ok {
						if pt, _ := fv.Type().Underlying().(*types.Pointer); pt != nil {
							return []modTarget{{key: vc.cellKey(pt.Elem()), idx: t}}, nil
						}
					}
				}
			}
			for _, b := range env.f.fn.Blocks {
				for _, in := range b.Instrs {
					if a, ok := in.(*ssa.Alloc); ok && a.Heap && a.Comment == id.Name {
						if t, ok := env.f.vals[a]; ok {
							return []modTarget{{key: vc.cellKey(a.Type().Underlying().(*types.Pointer).Elem()), idx: t}}, nil
						}
					}
				}
			}
			return nil, fmt.Errorf("cell(%s): no such heap-allocated variable", id.Name)
		case "elems": // slice elements (whole backing array)
			a, err := env.tr(x.Args[0])
			if err != nil {
				return nil, err
			}
			st, ok := a.Ty.Underlying().(*types.Slice)
			if !ok {
				return nil, fmt.Errorf("elems of non-slice")
			}
			return []modTarget{{key: vc.elemKey(st.Elem()), idx: S("s-arr", a.T)}}, nil
		case "fields": // every field of one object
			a, err := env.tr(x.Args[0])
			if err != nil {
				return nil, err
			}
			p, ok := a.Ty.Underlying().(*types.Pointer)
			if !ok {
				return nil, fmt.Errorf("fields of non-pointer")
			}
			var out []modTarget
			for i := range vc.eng.structFields(p.Elem()) {
				k, _ := vc.fieldKey(p.Elem(), i)
				out = append(out, modTarget{key: k, idx: a.T})
			}
			return out, nil
		case "global":
			id, ok := x.Args[0].(*EIdent)
			if !ok {
				return nil, fmt.Errorf("global(name)")
			}
			tp := vc.eng.pkgByNm[env.pkg]
			obj, _ := tp.Scope().Lookup(id.Name).(*types.Var)
			if obj == nil {
				return nil, fmt.Errorf("no global %s", id.Name)
			}
			k := "G:" + tp.Name() + "." + id.Name
			vc.regKey(k, vc.eng.sortOf(obj.Type()))
			return []modTarget{{key: k}}, nil
		case "where": // where(Type.field, r, cond(r))
			if len(x.Args) != 3 {
				return nil, fmt.Errorf("where(Type.field, var, cond)")
			}
			base, err := env.modTargets(x.Args[0])
			if err != nil {
				return nil, err
			}
			id, ok := x.Args[1].(*EIdent)
			if !ok {
				return nil, fmt.Errorf("where: second argument is a variable")
			}
			fe, _ := x.Args[0].(*EField)
			tid, _ := fe.X.(*EIdent)
			ty, err := vc.eng.evalType(env.pkg, "*"+tid.Name)
			if err != nil {
				return nil, err
			}
			n := env.with(id.Name, TV{"r!m", ty})
			c, err := n.tr(x.Args[2])
			if err != nil {
				return nil, err
			}
			var out []modTarget
			for _, b := range base {
				out = append(out, modTarget{key: b.key, cond: c.T})
			}
			return out, nil
		}
	}
	return nil, fmt.Errorf("unsupported modifies target")
}

// addOff builds off + i, cancelling a re-based bound variable (- q off).
func addOff(off, i string) string {
	pre := "(- q!"
	if strings.HasPrefix(i, pre) && strings.HasSuffix(i, " "+off+")") {
		v := i[3 : len(i)-len(off)-2]
		if !strings.ContainsAny(v, " ()") {
			return v
		}
	}
	for _, op := range []string{"+", "-"} {
		if strings.HasPrefix(i, "("+op+" "+pre) {
			rest := i[len(op)+2:]
			// rest = "(- q!x off) c)"
			m := "(- "
			if strings.HasPrefix(rest, m) {
				end := strings.Index(rest, " "+off+") ")
				if end > 0 {
					v := rest[3:end]
					c := rest[end+len(off)+3 : len(rest)-1]
					if !strings.ContainsAny(v, " ()") {
						return S(op, v, c)
					}
				}
			}
		}
	}
	return S("+", off, i)
}

// findIndexedSlice returns the first slice-valued expression indexed by the
// bound variable v (as v, v+c or v-c) that mentions no bound variable itself.
func findIndexedSlice(e Expr, v string, bound map[string]bool) Expr {
	var found Expr
	mentions := func(e Expr) bool { return mentionsAny(e, bound) }
	var walk func(e Expr)
	isV := func(e Expr) bool {
		switch x := e.(type) {
		case *EIdent:
			return x.Name == v
		case *EBin:
			if x.Op == "+" || x.Op == "-" {
				if id, ok := x.X.(*EIdent); ok && id.Name == v {
					return !mentionsAny(x.Y, map[string]bool{v: true})
				}
			}
		}
		return false
	}
	inOld := 0
	walk = func(e Expr) {
		if found != nil || e == nil {
			return
		}
		switch x := e.(type) {
		case *EIndex:
			if isV(x.I) && !mentions(x.X) {
				found = x.X
				if inOld > 0 {
					// the slice is read in the old state: so is its offset
					found = &ECall{Fn: "old", Args: []Expr{x.X}}
				}
				return
			}
			walk(x.X)
			walk(x.I)
		case *EUn:
			walk(x.X)
		case *EBin:
			walk(x.X)
			walk(x.Y)
		case *ECond:
			walk(x.C)
			walk(x.A)
			walk(x.B)
		case *ECall:
			if x.Fn == "old" {
				inOld++
			}
			for _, a := range x.Args {
				walk(a)
			}
			if x.Fn == "old" {
				inOld--
			}
		case *EField:
			walk(x.X)
		case *ESlice:
			walk(x.X)
			walk(x.Lo)
			walk(x.Hi)
		case *EQuant:
			walk(x.Body)
		case *ELet:
			walk(x.V)
			walk(x.Body)
		}
	}
	walk(e)
	return found
}

func mentionsAny(e Expr, names map[string]bool) bool {
	if e == nil {
		return false
	}
	switch x := e.(type) {
	case *EIdent:
		return names[x.Name]
	case *EUn:
		return mentionsAny(x.X, names)
	case *EBin:
		return mentionsAny(x.X, names) || mentionsAny(x.Y, names)
	case *ECond:
		return mentionsAny(x.C, names) || mentionsAny(x.A, names) || mentionsAny(x.B, names)
	case *ECall:
		for _, a := range x.Args {
			if mentionsAny(a, names) {
				return true
			}
		}
	case *EField:
		return mentionsAny(x.X, names)
	case *EIndex:
		return mentionsAny(x.X, names) || mentionsAny(x.I, names)
	case *ESlice:
		return mentionsAny(x.X, names) || mentionsAny(x.Lo, names) || mentionsAny(x.Hi, names)
	case *EQuant:
		return mentionsAny(x.Body, names)
	case *ELet:
		return mentionsAny(x.V, names) || mentionsAny(x.Body, names)
	}
	return false
}

func (vc *FuncVC) revealed(name string) bool {
	if vc.spec != nil {
		for _, r := range vc.spec.Reveal {
			if r == name {
				return true
			}
		}
	}
	for _, r := range vc.lemmaReveal {
		if r == name {
			return true
		}
	}
	return false
}

// mapLenFact: for map reference m in the state (lens, doms): len == 0 iff the
// domain is empty, and len >= 0. A fact about every real Go map.
func mapLenFact(vc *FuncVC, t *types.Map, m, lens, doms string) string {
	ks := vc.eng.sortOf(t.Key())
	ln := S("select", lens, m)
	return Imp("true", And(S("<=", "0", ln),
		S("=", S("=", ln, "0"), fmt.Sprintf("(forall ((k!l %s)) (! (not (select (select %s %s) k!l)) :pattern ((select (select %s %s) k!l))))", ks, doms, m, doms, m))))
}

// exprTypeText renders an expression that denotes a type (*T, T, pkg.T) back to text.
func exprTypeText(e Expr) string {
	switch x := e.(type) {
	case *EIdent:
		return x.Name
	case *EField:
		return exprTypeText(x.X) + "." + x.Name
	case *EUn:
		return x.Op + exprTypeText(x.X)
	}
	return "?"
}

// allocMark: the allocation watermark `fresh`/`allocated` compare with: the
// entry state's in a contract clause, the evaluation state's inside a spec
// function body.
func (env *TEnv) allocMark() string {
	if env.allocOld != "" {
		return env.allocOld
	}
	return env.cur.Get(env.vc.allocKey())
}
