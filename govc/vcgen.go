package main

// Verification-condition generation: forward symbolic execution of one go/ssa
// function in passive form. See DESIGN.md section 2.2.

import (
	"fmt"
	"go/constant"
	"go/token"
	"go/types"
	"sort"
	"strings"

	"golang.org/x/tools/go/ssa"
)

type Script struct{ lines []string }

func (s *Script) add(l string) { s.lines = append(s.lines, l) }

type Obligation struct {
	Name     string
	Fn       string
	Kind     string
	Goal     string
	Upto     int
	Props    []string
	Pos      string
	Text     string
	LoopFree bool
	Extra    []string
	vc       *FuncVC
	Case     string
	Timeout  int
	Probe    bool // vacuity probe: expected NOT to be unsat
	MaxSecs  int
}

// State maps state keys to their current SMT term. Absent = initial version.
type State struct {
	m map[string]string
}

func (s *State) clone() *State {
	n := &State{m: make(map[string]string, len(s.m)+4)}
	for k, v := range s.m {
		n.m[k] = v
	}
	return n
}

type FuncVC struct {
	eng            *Engine
	fn             *ssa.Function
	key            string
	spec           *FuncSpec
	script         *Script
	obls           []*Obligation
	universe       map[string]bool
	loopMods       map[string]map[string]bool // from previous pass
	loopModsNext   map[string]map[string]bool
	nfresh         int
	usedSpec       map[string]bool
	usedLemmas     map[string]bool
	unsupported    map[string]bool
	unknownCalls   map[string]bool
	matchedAsserts map[*CallAssert]bool // call-site assertions that found their call in this pass
	mentionedCalls map[string]bool      // calls("<name>") counters the contract of this function mentions
	countedCalls   map[string]bool      // ... and those that a direct call in this function has advanced
	unclaimed      map[string]bool      // obligations of a partially specified function that are generated but not claimed
	assumed        map[string]bool
	inlined        map[string]bool
	safe           bool
	nowrap         bool
	sweep          bool
	loopCut        bool
	oblNames       map[string]int
	ssaInstrs      int
	errs           []string
	topFrame       *Frame
	forceWrap      bool
	sweepRecv      bool
	usesLocks      bool
	lockOnly       bool
	guardVals      map[ssa.Value]guardInfo
	ifaceRecv      types.Type
	ifaceImpl      types.Type
	lemmaReveal    []string
	lemmaEnv       *TEnv
	outDir         string
	specInfo       map[string]*specFnInfo
	specOrder      []string
	axioms         []string
}

type LVal struct {
	key  string
	idx  []string
	path []pathEl
	ty   types.Type
}

type pathEl struct {
	isField bool
	ssort   string // struct sort (for field)
	fidx    int
	index   string // for array index
}

type loopInfo struct {
	id    string
	n     int
	head  *ssa.BasicBlock
	body  map[*ssa.BasicBlock]bool
	backs []*ssa.BasicBlock
	spec  *LoopSpec
	// head snapshot
	headState  *State
	headPhis   map[*ssa.Phi]string
	entryPhis  map[*ssa.Phi]string
	measure    string
	isRange    *ssa.Phi // rangeindex phi if any
	pending    []*pendingObl
	seenBacks  int
	entryState *State
	frameKeys  []string
	frameCond  map[string]string
}

type pendingObl struct {
	name, kind, text string
	goals            []string
}

type retPoint struct {
	reach   string
	results []string
	state   *State
	block   *ssa.BasicBlock
}

type Frame struct {
	vc           *FuncVC
	parent       *Frame
	fn           *ssa.Function
	id           string
	vals         map[ssa.Value]string
	lvals        map[ssa.Value]*LVal
	tuples       map[ssa.Value][]string
	reach        map[*ssa.BasicBlock]string
	out          map[*ssa.BasicBlock]*State
	edge         map[[2]*ssa.BasicBlock]string
	entry        *State
	spec         *FuncSpec
	loops        map[*ssa.BasicBlock]*loopInfo
	rets         []retPoint
	depth        int
	cur          *State
	curBlock     *ssa.BasicBlock
	curIdx       int
	curReach     string
	inLoops      []*loopInfo
	params       map[string]TV
	callIdx      int
	debug        map[string][]dbgRef
	defers       []deferRec
	ncall        map[string]int
	lockHeld     map[string]string
	entryMeasure string
}

type dbgRef struct {
	obj   types.Object
	block *ssa.BasicBlock
	idx   int
	val   ssa.Value
	addr  bool
}

type deferRec struct {
	call  *ssa.Defer
	reach string
}

func newFuncVC(e *Engine, fn *ssa.Function) *FuncVC {
	vc := &FuncVC{eng: e, fn: fn, key: fnKey(fn), universe: map[string]bool{}, loopMods: map[string]map[string]bool{}}
	vc.spec = e.spec.Funcs[vc.key]
	return vc
}

func (vc *FuncVC) reset() {
	vc.script = &Script{}
	vc.obls = nil
	vc.loopModsNext = map[string]map[string]bool{}
	vc.nfresh = 0
	vc.usedSpec = map[string]bool{}
	vc.usedLemmas = map[string]bool{}
	vc.unsupported = map[string]bool{}
	vc.unknownCalls = map[string]bool{}
	vc.matchedAsserts = map[*CallAssert]bool{}
	vc.mentionedCalls = map[string]bool{}
	vc.countedCalls = map[string]bool{}
	vc.unclaimed = map[string]bool{}
	vc.assumed = map[string]bool{}
	vc.inlined = map[string]bool{}
	vc.oblNames = map[string]int{}
	vc.loopCut = false
	vc.ssaInstrs = 0
	vc.errs = nil
}

func (vc *FuncVC) fresh(base, sort string) string {
	vc.nfresh++
	n := fmt.Sprintf("%s!%d", sym(base), vc.nfresh)
	vc.script.add(fmt.Sprintf("(declare-const %s %s)", n, sort))
	return n
}

func (vc *FuncVC) define(base, sort, term string) string {
	// short atoms need no name
	if !strings.ContainsAny(term, " (") {
		return term
	}
	// a macro, not a constant with an equation: the solvers see through it, so
	// arithmetic normalises syntactically (k+1-1 = k), which E-matching needs
	vc.nfresh++
	n := fmt.Sprintf("%s!%d", sym(base), vc.nfresh)
	vc.script.add(fmt.Sprintf("(define-fun %s () %s %s)", n, sort, term))
	return n
}

// defineMerged names a state merged at a control-flow join. Arrays become a
// constant with an equation (patterns match selects on a constant, not on an
// ite term); scalars stay macros.
func (vc *FuncVC) defineMerged(base, sort, term string) string {
	if !strings.HasPrefix(sort, "(Array") || !strings.HasPrefix(term, "(ite ") {
		return vc.define(base, sort, term)
	}
	n := vc.fresh(base, sort)
	vc.script.add(fmt.Sprintf("(assert (= %s %s))", n, term))
	return n
}

func (vc *FuncVC) assume(f string) {
	if f == "true" || f == "" {
		return
	}
	vc.script.add("(assert " + f + ")")
}

func (vc *FuncVC) errorf(format string, args ...interface{}) {
	vc.errs = append(vc.errs, fmt.Sprintf(format, args...))
}

// keySortOf registers the sort of a state key.
func (vc *FuncVC) regKey(key, sort string) {
	if old, ok := vc.eng.keySort[key]; ok && old != sort {
		panic(fmt.Sprintf("state key %s has sorts %s and %s", key, old, sort))
	}
	vc.eng.keySort[key] = sort
	vc.universe[key] = true
}

func (vc *FuncVC) initial(key string) string {
	n := sym(key) + "_0"
	return n
}

func (vc *FuncVC) declInitials() []string {
	var keys []string
	for k := range vc.universe {
		keys = append(keys, k)
	}
	sort.Strings(keys)
	var out []string
	for _, k := range keys {
		out = append(out, fmt.Sprintf("(declare-const %s %s)", vc.initial(k), vc.eng.keySort[k]))
	}
	return out
}

func (f *Frame) get(st *State, key string) string {
	if v, ok := st.m[key]; ok {
		return v
	}
	if _, ok := f.vc.eng.keySort[key]; !ok {
		panic("unregistered key " + key)
	}
	f.vc.universe[key] = true
	return f.vc.initial(key)
}

func (f *Frame) set(st *State, key, term string) {
	st.m[key] = term
	f.vc.universe[key] = true
	// record write for enclosing loops (this frame and callers)
	for fr := f; fr != nil; fr = fr.parent {
		for _, li := range fr.inLoops {
			m := f.vc.loopModsNext[li.id]
			if m == nil {
				m = map[string]bool{}
				f.vc.loopModsNext[li.id] = m
			}
			m[key] = true
		}
	}
}

// heap view of a state for the spec translator
type stateHeap struct {
	f  *Frame
	st *State
}

func (h stateHeap) Get(key string) string { return h.f.get(h.st, key) }

// ---------------------------------------------------------------------------
// state keys

func (vc *FuncVC) fieldKey(structT types.Type, fi int) (string, fieldInfo) {
	fis := vc.eng.structFields(structT)
	sn := vc.eng.sortOf(structT)
	k := "H:" + sn + "." + fis[fi].Name
	vc.regKey(k, "(Array Int "+fis[fi].Sort+")")
	vc.regKind(k, 1, fis[fi].Type, "")
	return k, fis[fi]
}

// kname names the value class of a type inside a state key: all reference-like
// types share one class (they share the sort Int but, unlike integers, never
// exceed the allocation watermark).
func (vc *FuncVC) kname(t types.Type) string {
	switch t.Underlying().(type) {
	case *types.Pointer, *types.Map, *types.Chan, *types.Signature:
		return "Ref"
	}
	return vc.eng.sortOf(t)
}

// refProj returns the projection that yields the reference held by a value of
// type t ("" = holds none, "id" = is one).
func refProj(t types.Type) string {
	switch t.Underlying().(type) {
	case *types.Pointer, *types.Map, *types.Chan, *types.Signature:
		return "id"
	case *types.Interface:
		return "i-val"
	case *types.Slice:
		return "s-arr"
	}
	return ""
}

type keyKind struct {
	shape int    // 1: (Array Int V)   2: (Array Int (Array K V))
	proj  string // "id", "i-val", "s-arr"
	ksort string // index sort of the inner array (shape 2)
}

func (vc *FuncVC) regKind(key string, shape int, t types.Type, ksort string) {
	if p := refProj(t); p != "" {
		vc.eng.keyKinds[key] = keyKind{shape, p, ksort}
	}
}

// heapWF: no cell of this version of the key holds a reference above the
// allocation watermark (no dangling references to objects not yet allocated).
func (vc *FuncVC) heapWF(key, term, alloc string) string {
	return And(vc.nilMapFact(key, term), vc.heapWFRefs(key, term, alloc))
}

// nilMapFact: reference 0, the nil map, is an empty map in every state (reads
// yield the zero value, the domain is empty, the length is 0). Writing to it
// panics, so no store ever changes this.
func (vc *FuncVC) nilMapFact(key, term string) string {
	switch {
	case strings.HasPrefix(key, "Ml:"):
		return S("=", S("select", term, "0"), "0")
	case strings.HasPrefix(key, "Md:"):
		ks := vc.eng.mapKeySort[key]
		return fmt.Sprintf("(forall ((j!n %s)) (! (not (select (select %s 0) j!n)) :pattern ((select (select %s 0) j!n))))", ks, term, term)
	case strings.HasPrefix(key, "Mv:"):
		ks := vc.eng.mapKeySort[key]
		z := vc.eng.mapZero[key]
		return fmt.Sprintf("(forall ((j!n %s)) (! (= (select (select %s 0) j!n) %s) :pattern ((select (select %s 0) j!n))))", ks, term, z, term)
	}
	return ""
}

func (vc *FuncVC) heapWFRefs(key, term, alloc string) string {
	kk, ok := vc.eng.keyKinds[key]
	if !ok {
		return ""
	}
	proj := func(x string) string {
		if kk.proj == "id" {
			return x
		}
		return S(kk.proj, x)
	}
	// only cells of objects that exist: the cells of a reference above the
	// watermark are unconstrained (a callee's fresh objects live there)
	if kk.shape == 1 {
		el := S("select", term, "i!w")
		return fmt.Sprintf("(forall ((i!w Int)) (! (=> (<= i!w %s) (<= %s %s)) :pattern (%s)))", alloc, proj(el), alloc, el)
	}
	el := S("select", S("select", term, "i!w"), "j!w")
	return fmt.Sprintf("(forall ((i!w Int) (j!w %s)) (! (=> (<= i!w %s) (<= %s %s)) :pattern (%s)))", kk.ksort, alloc, proj(el), alloc, el)
}

func (vc *FuncVC) elemKey(elemT types.Type) string {
	s := vc.eng.sortOf(elemT)
	k := "E:" + vc.kname(elemT)
	vc.regKey(k, "(Array Int (Array Int "+s+"))")
	vc.regKind(k, 2, elemT, "Int")
	return k
}

func (vc *FuncVC) cellKey(elemT types.Type) string {
	s := vc.eng.sortOf(elemT)
	k := "C:" + vc.kname(elemT)
	vc.regKey(k, "(Array Int "+s+")")
	vc.regKind(k, 1, elemT, "")
	return k
}

func (vc *FuncVC) boxKey(sort string) string {
	k := "B:" + sort
	vc.regKey(k, "(Array Int "+sort+")")
	return k
}

func (vc *FuncVC) mapKeys(mt *types.Map) (kv, kd, kl string) {
	ks, vs := vc.eng.sortOf(mt.Key()), vc.eng.sortOf(mt.Elem())
	id := vc.kname(mt.Key()) + ":" + vc.kname(mt.Elem())
	kv, kd, kl = "Mv:"+id, "Md:"+id, "Ml:"+id
	vc.regKey(kv, fmt.Sprintf("(Array Int (Array %s %s))", ks, vs))
	vc.regKey(kd, fmt.Sprintf("(Array Int (Array %s Bool))", ks))
	vc.regKey(kl, "(Array Int Int)")
	vc.regKind(kv, 2, mt.Elem(), ks)
	vc.eng.mapKeySort[kv], vc.eng.mapKeySort[kd] = ks, ks
	vc.eng.mapZero[kv] = vc.eng.zero(mt.Elem())
	return
}

// dynKey is a ghost counter of calls made through function values (callbacks):
// it only ever grows; a call through a function value makes it grow strictly.
func (vc *FuncVC) dynKey() string {
	vc.regKey("ghost:dyncalls", "Int")
	return "ghost:dyncalls"
}

// callsKey is a ghost counter of calls of the function named (as in contract
// headers: "(*Entry).merge"); like dynKey it only ever grows, and a direct call
// of that function makes it grow strictly.
func (vc *FuncVC) callsKey(name string) string {
	k := "ghost:calls:" + name
	vc.regKey(k, "Int")
	return k
}

// ghostKeys lists the ghost counters known so far, sorted.
func (vc *FuncVC) ghostKeys() []string {
	var out []string
	for k := range vc.universe {
		if strings.HasPrefix(k, "ghost:") {
			out = append(out, k)
		}
	}
	sort.Strings(out)
	return out
}

func (vc *FuncVC) allocKey() string {
	vc.regKey("alloc", "Int")
	return "alloc"
}

func (vc *FuncVC) globalKey(g *ssa.Global) string {
	et := g.Type().(*types.Pointer).Elem()
	k := "G:" + g.Pkg.Pkg.Name() + "." + g.Name()
	vc.regKey(k, vc.eng.sortOf(et))
	return k
}

// ---------------------------------------------------------------------------
// l-values

func (f *Frame) readLV(st *State, lv *LVal) string {
	t := f.get(st, lv.key)
	for _, i := range lv.idx {
		t = S("select", t, i)
	}
	for _, p := range lv.path {
		if p.isField {
			t = S(f.vc.eng.sorts.fields[p.ssort][p.fidx].Sel, t)
		} else {
			t = S("select", t, p.index)
		}
	}
	return t
}

func (f *Frame) updPath(base string, path []pathEl, v string) string {
	if len(path) == 0 {
		return v
	}
	p := path[0]
	if p.isField {
		fis := f.vc.eng.sorts.fields[p.ssort]
		args := make([]string, len(fis))
		for i, fi := range fis {
			if i == p.fidx {
				args[i] = f.updPath(S(fi.Sel, base), path[1:], v)
			} else {
				args[i] = S(fi.Sel, base)
			}
		}
		return S("mk-"+p.ssort, args...)
	}
	return S("store", base, p.index, f.updPath(S("select", base, p.index), path[1:], v))
}

func (f *Frame) writeLV(st *State, lv *LVal, v string) {
	root := f.get(st, lv.key)
	// descend idx
	var upd func(arr string, idx []string) string
	upd = func(arr string, idx []string) string {
		if len(idx) == 0 {
			return f.updPath(arr, lv.path, v)
		}
		return S("store", arr, idx[0], upd(S("select", arr, idx[0]), idx[1:]))
	}
	nt := upd(root, lv.idx)
	f.set(st, lv.key, f.vc.define(lv.key, f.vc.eng.keySort[lv.key], nt))
}

// ---------------------------------------------------------------------------
// values

func (f *Frame) val(v ssa.Value) string {
	if t, ok := f.vals[v]; ok {
		return t
	}
	switch c := v.(type) {
	case *ssa.Const:
		return f.constTerm(c)
	case *ssa.Global:
		// address of a global used as a value: not an ordinary reference
		return f.unknownValue(v, "address of global "+c.Name())
	case *ssa.Function:
		return IntLit64(int64(1000000 + f.vc.eng.typeTag(types.NewPointer(types.NewNamed(types.NewTypeName(token.NoPos, nil, "fn!"+c.String(), nil), types.Typ[types.Int], nil)))))
	case *ssa.Builtin:
		return "0"
	}
	if lv, ok := f.lvals[v]; ok {
		_ = lv
		return f.unknownValue(v, "address used as a value: "+v.String())
	}
	return f.unknownValue(v, "value not modelled: "+v.String())
}

func (f *Frame) unknownValue(v ssa.Value, why string) string {
	f.vc.unsupported[why] = true
	t := f.vc.fresh(f.id+"unk", f.vc.eng.sortOf(v.Type()))
	f.vals[v] = t
	return t
}

func (f *Frame) constTerm(c *ssa.Const) string {
	e := f.vc.eng
	if c.Value == nil {
		return e.zero(c.Type())
	}
	switch c.Value.Kind() {
	case constant.Bool:
		if constant.BoolVal(c.Value) {
			return "true"
		}
		return "false"
	case constant.String:
		return e.strLit(constant.StringVal(c.Value))
	case constant.Int:
		b, _ := constant.Int64Val(c.Value)
		if _, ok := constant.Int64Val(c.Value); ok {
			if bt, isb := c.Type().Underlying().(*types.Basic); isb && bt.Info()&types.IsFloat != 0 {
				return fmt.Sprintf("%d.0", b)
			}
			return IntLit64(b)
		}
		s := c.Value.ExactString()
		if strings.HasPrefix(s, "-") {
			return "(- " + s[1:] + ")"
		}
		return s
	case constant.Float:
		return f.vc.fresh("fconst", "Real")
	}
	return f.vc.fresh("const", e.sortOf(c.Type()))
}

// ---------------------------------------------------------------------------
// obligations

func (f *Frame) oblige(kind, name, cond, text string, pos token.Pos) {
	vc := f.vc
	full := vc.key + "/" + f.idPrefixForName() + name
	vc.oblNames[full]++
	if n := vc.oblNames[full]; n > 1 {
		full = fmt.Sprintf("%s~%d", full, n)
	}
	var props []string
	if vc.spec != nil {
		props = vc.spec.Props
	}
	if vc.spec != nil && len(vc.spec.Only) > 0 && kind != "probe" {
		keep := false
		for _, pat := range vc.spec.Only {
			if strings.Contains(name, pat) {
				keep = true
			}
		}
		if !keep {
			// a partially specified function: this obligation is not claimed
			// (the callers of oblige still assume the condition)
			vc.unclaimed[name] = true
			return
		}
	}
	if vc.spec != nil {
		for cn, ps := range vc.spec.ClauseProps {
			if strings.HasSuffix(name, ":"+cn) || strings.Contains(name, ":"+cn+"/") {
				props = ps
			}
		}
	}
	goal := Imp(f.curReach, cond)
	o := &Obligation{Name: full, Fn: vc.key, Kind: kind, Goal: goal, Upto: len(vc.script.lines), Props: props,
		Pos: vc.eng.pos(pos), Text: text, LoopFree: !vc.loopCut, vc: vc}
	if vc.spec != nil {
		o.Timeout = vc.spec.Timeout
	}
	vc.obls = append(vc.obls, o)
}

func (f *Frame) idPrefixForName() string {
	if f.parent == nil {
		return ""
	}
	return "in:" + f.id + "/"
}

// safety: an implicit run-time check. Asserted when the function is `safe`
// (or in sweep mode), always assumed afterwards (partial correctness: a path
// that panics does not reach any later obligation).
func (f *Frame) safety(name, cond, text string, pos token.Pos) {
	if cond == "true" {
		return
	}
	if f.vc.safe {
		f.oblige("safety", name, cond, text, pos)
	}
	f.vc.assume(Imp(f.curReach, cond))
}

func exprText(v ssa.Value) string {
	s := v.String()
	if len(s) > 60 {
		s = s[:60]
	}
	return s
}

// srcText returns the source text covered by an AST position range if known.
func (f *Frame) srcName(instr ssa.Instruction, fallback string) string {
	return fallback
}

func (vc *FuncVC) workDir() string {
	if vc.outDir != "" {
		return vc.outDir
	}
	return "/verif/out/smt/_misc"
}

// fnTag distinguishes the local-variable keys of different verification units.
func (f *Frame) fnTag() string { return sym(f.vc.key) + ":" }
