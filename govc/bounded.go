package main

// Bounded stand-ins: in-package Go tests under /verif/bounded/<prop>/, injected
// with -overlay and run against the real code. They are labelled bounded in the
// evidence, reported separately and never counted as obligations.
//
// File naming: <pkgdir with / replaced by __>__<name>_test.go, e.g.
// pkg__yang__c15_roundtrip_test.go. Tests are named TestGovcBounded*. They print
//   GOVC-BOUNDED name=<n> bound=<text without spaces> evaluations=<N> distinct=<M>
//   GOVC-FAIL name=<n> <what failed, with the input>

import (
	"context"
	"encoding/json"
	"fmt"
	"os"
	"os/exec"
	"path/filepath"
	"sort"
	"strings"
	"time"
)

type boundedResult struct {
	Name        string  `json:"name"`
	Bound       string  `json:"bound"`
	Evaluations int     `json:"evaluations"`
	Distinct    int     `json:"distinct_cases"`
	Failures    int     `json:"failures"`
	WallS       float64 `json:"wall_s"`
}

type boundedFailure struct {
	Name string
	Text string
}

func runBounded(repo, verif, prop, tier string, seed int) ([]boundedResult, []boundedFailure, error) {
	dir := filepath.Join(verif, "bounded", prop)
	files, _ := filepath.Glob(filepath.Join(dir, "*_test.go"))
	if len(files) == 0 {
		return nil, nil, nil
	}
	sort.Strings(files)
	byPkg := map[string][]string{}
	for _, f := range files {
		base := filepath.Base(f)
		parts := strings.Split(base, "__")
		if len(parts) < 2 {
			continue
		}
		pkgDir := strings.Join(parts[:len(parts)-1], "/")
		byPkg[pkgDir] = append(byPkg[pkgDir], f)
	}
	var results []boundedResult
	var failures []boundedFailure
	var pkgs []string
	for p := range byPkg {
		pkgs = append(pkgs, p)
	}
	sort.Strings(pkgs)
	for _, pkgDir := range pkgs {
		tmp, err := os.MkdirTemp("", "govc-bounded")
		if err != nil {
			return nil, nil, err
		}
		repl := map[string]string{}
		for _, f := range byPkg[pkgDir] {
			base := filepath.Base(f)
			repl[filepath.Join(repo, pkgDir, "zz_govc_"+base[strings.LastIndex(base, "__")+2:])] = f
		}
		ovData, _ := json.Marshal(map[string]interface{}{"Replace": repl})
		ovPath := filepath.Join(tmp, "ov.json")
		os.WriteFile(ovPath, ovData, 0o644)
		timeout := 120
		if tier == "thorough" {
			timeout = 900
		}
		ctx, cancel := context.WithTimeout(context.Background(), time.Duration(timeout+30)*time.Second)
		args := []string{"test", "-overlay", ovPath, "-vet=off", "-timeout", fmt.Sprintf("%ds", timeout), "-run", "^TestGovcBounded", "-count=1", "-v"}
		if fl, err := os.ReadFile(filepath.Join(dir, "FLAGS")); err == nil {
			args = append(args, strings.Fields(string(fl))...)
		}
		args = append(args, ".")
		cmd := exec.CommandContext(ctx, "go", args...)
		cmd.Dir = filepath.Join(repo, pkgDir)
		cmd.Env = append(os.Environ(), "GOFLAGS=-mod=mod", "GOPROXY=off", "GOSUMDB=off", "GOTOOLCHAIN=local",
			"VERIF_TIER="+tier, fmt.Sprintf("VERIF_SEED=%d", seed))
		start := time.Now()
		out, runErr := cmd.CombinedOutput()
		cancel()
		os.RemoveAll(tmp)
		wall := time.Since(start).Seconds()
		seen := false
		failCount := map[string]int{}
		for _, ln := range strings.Split(string(out), "\n") {
			ln = strings.TrimSpace(ln)
			if strings.HasPrefix(ln, "GOVC-FAIL ") {
				rest := strings.TrimPrefix(ln, "GOVC-FAIL ")
				name := ""
				if strings.HasPrefix(rest, "name=") {
					sp := strings.SplitN(rest[5:], " ", 2)
					name = sp[0]
					if len(sp) > 1 {
						rest = sp[1]
					}
				}
				failCount[name]++
				if failCount[name] <= 3 {
					failures = append(failures, boundedFailure{name, rest})
				}
			}
		}
		for _, ln := range strings.Split(string(out), "\n") {
			ln = strings.TrimSpace(ln)
			if strings.HasPrefix(ln, "GOVC-BOUNDED ") {
				seen = true
				br := boundedResult{WallS: wall}
				for _, kv := range strings.Fields(ln)[1:] {
					sp := strings.SplitN(kv, "=", 2)
					if len(sp) != 2 {
						continue
					}
					switch sp[0] {
					case "name":
						br.Name = sp[1]
					case "bound":
						br.Bound = strings.ReplaceAll(sp[1], "_", " ")
					case "evaluations":
						fmt.Sscan(sp[1], &br.Evaluations)
					case "distinct":
						fmt.Sscan(sp[1], &br.Distinct)
					}
				}
				br.Failures = failCount[br.Name]
				results = append(results, br)
			}
		}
		if !seen || (runErr != nil && len(failures) == 0) {
			// the test binary did not build or crashed: report it
			tail := string(out)
			if len(tail) > 1500 {
				tail = tail[len(tail)-1500:]
			}
			failures = append(failures, boundedFailure{"bounded-run:" + pkgDir, "bounded tests did not complete: " + strings.ReplaceAll(tail, "\n", " | ")})
		}
	}
	return results, failures, nil
}
