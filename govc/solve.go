package main

// Portfolio solver runner: z3 5.1 (z3-new), cvc5 1.0.x, z3 4.8 raced per
// obligation; hard timeouts from outside.

import (
	"bytes"
	"context"
	"fmt"
	"os"
	"os/exec"
	"path/filepath"
	"strings"
	"sync"
	"time"
)

type Result struct {
	Obl         *Obligation
	Status      string // proved | sat | unknown | timeout | error
	Solver      string
	Millis      int64
	Model       string
	Output      string
	File        string
	Bytes       int
	Answers     map[string]string
	replayed    bool
	replayNote  string
	replayInput interface{}
}

type solverDef struct {
	name string
	args func(file string, secs int) []string
}

var solvers = []solverDef{
	{"z3-5.1", func(f string, s int) []string { return []string{"z3-new", fmt.Sprintf("-T:%d", s), f} }},
	{"cvc5", func(f string, s int) []string {
		return []string{"cvc5", "--produce-models", fmt.Sprintf("--tlimit=%d", s*1000), f}
	}},
	{"z3-4.8", func(f string, s int) []string { return []string{"z3", fmt.Sprintf("-T:%d", s), f} }},
}

func firstLine(out string) string {
	for _, l := range strings.Split(out, "\n") {
		l = strings.TrimSpace(l)
		if l == "" || strings.HasPrefix(l, "WARNING") || strings.Contains(l, "conda") || strings.HasPrefix(l, "(error \"line") && strings.Contains(l, "model is not available") {
			continue
		}
		return l
	}
	return ""
}

func runOne(ctx context.Context, sd solverDef, file string, secs int) (answer, output string, ms int64) {
	args := sd.args(file, secs)
	cctx, cancel := context.WithTimeout(ctx, time.Duration(secs+2)*time.Second)
	defer cancel()
	cmd := exec.CommandContext(cctx, args[0], args[1:]...)
	var buf bytes.Buffer
	cmd.Stdout = &buf
	cmd.Stderr = &buf
	start := time.Now()
	_ = cmd.Run()
	ms = time.Since(start).Milliseconds()
	out := buf.String()
	fl := firstLine(out)
	switch {
	case fl == "unsat":
		return "unsat", out, ms
	case fl == "sat":
		return "sat", out, ms
	case fl == "unknown":
		return "unknown", out, ms
	case fl == "timeout" || cctx.Err() != nil || strings.Contains(out, "interrupted by timeout") || strings.Contains(out, "cvc5 interrupted"):
		return "timeout", out, ms
	}
	return "error", out, ms
}

// solve races the portfolio on one obligation.
func solve(o *Obligation, dir string, secs int, all bool) *Result {
	text := o.SMT(true)
	fn := filepath.Join(dir, sym(o.Name)+caseSuffix(o)+".smt2")
	_ = os.MkdirAll(dir, 0o755)
	_ = os.WriteFile(fn, []byte(text), 0o644)
	res := &Result{Obl: o, File: fn, Bytes: len(text), Answers: map[string]string{}}
	if len(text) > 4<<20 {
		res.Status = "error"
		res.Output = "VC larger than 4 MB: function out of reach"
		return res
	}
	ctx, cancel := context.WithCancel(context.Background())
	defer cancel()
	type ans struct {
		sd     solverDef
		answer string
		out    string
		ms     int64
	}
	ch := make(chan ans, len(solvers))
	var wg sync.WaitGroup
	start := time.Now()
	launch := func(sd solverDef) {
		wg.Add(1)
		go func() {
			defer wg.Done()
			a, out, ms := runOne(ctx, sd, fn, secs)
			ch <- ans{sd, a, out, ms}
		}()
	}
	launch(solvers[0])
	launched := 1
	pending := 1
	stagger := time.NewTimer(700 * time.Millisecond)
	if all {
		stagger.Reset(0)
	}
	defer stagger.Stop()
	var best *ans
	for pending > 0 || launched < len(solvers) {
		select {
		case <-stagger.C:
			for launched < len(solvers) {
				launch(solvers[launched])
				launched++
				pending++
			}
		case a := <-ch:
			pending--
			res.Answers[a.sd.name] = fmt.Sprintf("%s %dms", a.answer, a.ms)
			if a.answer == "unsat" || a.answer == "sat" {
				if best == nil {
					aa := a
					best = &aa
				} else if best.answer != a.answer {
					res.Status = "error"
					res.Output = fmt.Sprintf("solver disagreement: %s says %s, %s says %s", best.sd.name, best.answer, a.sd.name, a.answer)
					return res
				}
				if !all {
					cancel()
					goto done
				}
			} else if best == nil {
				if res.Output == "" || a.answer == "error" {
					res.Output = a.sd.name + ": " + trimOut(a.out)
				}
				if res.Status == "" || a.answer == "unknown" {
					res.Status = a.answer
				}
			}
			if pending == 0 && launched < len(solvers) {
				// first solver gave up quickly: start the others now
				for launched < len(solvers) {
					launch(solvers[launched])
					launched++
					pending++
				}
			}
		}
	}
done:
	res.Millis = time.Since(start).Milliseconds()
	if best != nil {
		res.Solver = best.sd.name
		res.Millis = best.ms
		if best.answer == "unsat" {
			res.Status = "proved"
		} else {
			res.Status = "sat"
			res.Model = best.out
		}
	}
	if o.Probe {
		// vacuity probe: unsat means the assumptions are contradictory
		if res.Status == "proved" {
			res.Status = "vacuous"
		} else {
			res.Status = "probe-ok"
		}
	}
	go func() { wg.Wait() }()
	return res
}

func caseSuffix(o *Obligation) string {
	if o.Case == "" {
		return ""
	}
	return "__" + sym(o.Case)
}

func trimOut(s string) string {
	s = strings.TrimSpace(s)
	if len(s) > 600 {
		s = s[:600] + "..."
	}
	return s
}

// solveAll discharges obligations with a worker pool.
func solveAll(obls []*Obligation, dir string, secs int, workers int, all bool) []*Result {
	results := make([]*Result, len(obls))
	var wg sync.WaitGroup
	sem := make(chan struct{}, workers)
	for i, o := range obls {
		wg.Add(1)
		sem <- struct{}{}
		go func(i int, o *Obligation) {
			defer wg.Done()
			defer func() { <-sem }()
			t := secs
			if o.Timeout > 0 && o.Timeout > t {
				t = o.Timeout
			}
			if o.MaxSecs > 0 && o.MaxSecs < t {
				t = o.MaxSecs
			}
			if o.Probe {
				t = 3
				if all {
					t = 20
				}
			}
			results[i] = solve(o, dir, t, all && !o.Probe)
		}(i, o)
	}
	wg.Wait()
	return results
}
