package main

import (
	"fmt"
	"go/token"
	"go/types"
	"os"
	"sort"
	"strings"

	"golang.org/x/tools/go/ssa"
)

// generate runs VC generation to a fixpoint of (state-key universe, loop
// modification sets): the keys a loop body writes are observed in one pass and
// havocked at the loop head in the next.
func (vc *FuncVC) generate() {
	for pass := 0; pass < 10; pass++ {
		before := len(vc.universe)
		vc.reset()
		vc.genOnce()
		same := len(vc.universe) == before && sameMods(vc.loopMods, vc.loopModsNext)
		if os.Getenv("GOVC_DEBUG_FIX") != "" {
			fmt.Fprintf(os.Stderr, "pass %d: universe %d -> %d, mods same=%v\n", pass, before, len(vc.universe), sameMods(vc.loopMods, vc.loopModsNext))
			for k, m := range vc.loopModsNext {
				if len(m) != len(vc.loopMods[k]) {
					fmt.Fprintf(os.Stderr, "   loop %s: %d -> %d keys\n", k, len(vc.loopMods[k]), len(m))
				}
			}
		}
		// the sets only grow from pass to pass (a key once seen written stays
		// havocked), so the iteration is monotone and terminates
		for k, m := range vc.loopMods {
			n := vc.loopModsNext[k]
			if n == nil {
				n = map[string]bool{}
				vc.loopModsNext[k] = n
			}
			for x := range m {
				n[x] = true
			}
		}
		same = len(vc.universe) == before && sameMods(vc.loopMods, vc.loopModsNext)
		vc.loopMods = vc.loopModsNext
		if same {
			return
		}
	}
	vc.errorf("VC generation did not reach a fixpoint")
}

func sameMods(a, b map[string]map[string]bool) bool {
	if len(a) != len(b) {
		return false
	}
	for k, m := range a {
		n, ok := b[k]
		if !ok || len(m) != len(n) {
			return false
		}
		for x := range m {
			if !n[x] {
				return false
			}
		}
	}
	return true
}

func (vc *FuncVC) genOnce() {
	defer func() {
		if r := recover(); r != nil {
			vc.errorf("generator panic: %v", r)
		}
	}()
	fn := vc.fn
	spec := vc.spec
	vc.safe = vc.sweep || (spec != nil && spec.Safe)
	vc.nowrap = spec != nil && spec.NoWrap && !vc.forceWrap
	f := vc.newFrame(nil, fn, "")
	vc.topFrame = f
	entry := &State{m: map[string]string{}}
	alloc0 := f.get(entry, vc.allocKey())
	vc.assume(S("<=", "0", alloc0))
	{
		// the heap at entry holds no reference to an object not yet allocated
		var ks []string
		for k := range vc.universe {
			ks = append(ks, k)
		}
		sort.Strings(ks)
		for _, k := range ks {
			if strings.HasPrefix(k, "L:") || strings.HasPrefix(k, "it:") {
				continue
			}
			if wf := vc.heapWF(k, vc.initial(k), alloc0); wf != "" {
				vc.assume(wf)
			}
		}
	}
	var args []string
	for _, p := range fn.Params {
		t := vc.fresh("p_"+p.Name(), vc.eng.sortOf(p.Type()))
		for _, inv := range vc.eng.typeInv(t, p.Type(), alloc0, 0) {
			vc.assume(inv)
		}
		args = append(args, t)
		// elements of a slice parameter are well-typed values too
		if st, ok := p.Type().Underlying().(*types.Slice); ok {
			k := vc.elemKey(st.Elem())
			el := S("select", S("select", f.get(entry, k), S("s-arr", t)), "j!t")
			invs := vc.eng.typeInv(el, st.Elem(), "", 0)
			if len(invs) > 0 {
				vc.assume(fmt.Sprintf("(forall ((j!t Int)) (! %s :pattern (%s)))", And(invs...), el))
			}
		}
	}
	if vc.sweep && vc.sweepRecv && fn.Signature.Recv() != nil && len(args) > 0 {
		// sweep mode: a method is entered with a non-nil pointer receiver (the
		// implicit precondition of every method; listed as an assumption)
		if _, isPtr := fn.Params[0].Type().Underlying().(*types.Pointer); isPtr {
			vc.assume(Not(S("=", args[0], "0")))
		}
	}
	for _, fv := range fn.FreeVars {
		t := vc.fresh("fv_"+fv.Name(), vc.eng.sortOf(fv.Type()))
		for _, inv := range vc.eng.typeInv(t, fv.Type(), alloc0, 0) {
			vc.assume(inv)
		}
		vc.assume(S("<", "0", t)) // captured variables are addresses of live cells
		f.vals[fv] = t
	}
	// a call enters with no mutex held by this thread (functions that are called
	// inside a critical section say so with a `requires held(...)`-style contract)
	{
		var ks []string
		for k := range vc.universe {
			if strings.HasPrefix(k, "lock:") {
				ks = append(ks, k)
			}
		}
		sort.Strings(ks)
		for _, k := range ks {
			vc.assume(fmt.Sprintf("(forall ((r!l Int)) (! (= (select %s r!l) 0) :pattern ((select %s r!l))))", vc.initial(k), vc.initial(k)))
		}
	}
	// requires
	f.entry = entry
	f.cur = entry
	f.curReach = "true"
	for i, p := range fn.Params {
		f.params[p.Name()] = TV{args[i], p.Type()}
	}
	if vc.ifaceRecv != nil && len(fn.Params) > 0 {
		// checking an implementation against the interface method's contract:
		// `recv` is the receiver as an interface value; parameters by the
		// interface method's names are bound positionally in run()
		rp := fn.Params[0]
		tag := fmt.Sprint(vc.eng.typeTag(vc.ifaceImpl))
		if types.Identical(rp.Type(), vc.ifaceImpl) {
			switch rp.Type().Underlying().(type) {
			case *types.Pointer, *types.Map, *types.Chan, *types.Signature:
				f.params["recv"] = TV{S("mk-iface", tag, args[0]), vc.ifaceRecv}
				vc.assume(Not(S("=", args[0], "0")))
			default:
				box := vc.fresh("recvbox", "Int")
				vc.assume(S("<", "0", box))
				f.params["recv"] = TV{S("mk-iface", tag, box), vc.ifaceRecv}
			}
		} else {
			// value-receiver method reached through a pointer in the interface
			pp := vc.fresh("recvptr", "Int")
			vc.assume(S("<", "0", pp))
			f.params["recv"] = TV{S("mk-iface", tag, pp), vc.ifaceRecv}
		}
	}
	if spec != nil {
		env := f.baseEnv(entry)
		fvLookup := env.lookup
		env.lookup = func(name string) (TV, bool) {
			if tv, ok := fvLookup(name); ok {
				return tv, true
			}
			return f.freeVar(name, entry)
		}
		for _, rq := range spec.Requires {
			tv, err := env.tr(rq.Expr)
			if err != nil {
				vc.errorf("%s:%d: %v", rq.File, rq.Line, err)
				continue
			}
			vc.assume(tv.T)
		}
		if spec.Decreases != nil {
			tv, err := env.tr(spec.Decreases.Expr)
			if err != nil {
				vc.errorf("%s:%d: %v", spec.Decreases.File, spec.Decreases.Line, err)
			} else {
				f.entryMeasure = vc.define("measure0", "Int", tv.T)
			}
		}
		if len(spec.Requires) > 0 {
			f.probe("requires/vacuity")
		}
	}
	f.run(args, "true", entry)
	if spec == nil {
		return
	}
	// a call-site assertion that matches no call would be vacuous
	for _, ca := range spec.CallAsserts {
		if !vc.matchedAsserts[ca] {
			vc.errorf("%s:%d: no call %s#%d in %s (inlined, renamed or removed): the assertion anchored there cannot be checked", ca.C.File, ca.C.Line, ca.Callee, ca.N, vc.key)
		}
	}
	// a counter calls("<name>") that no call of this function advances would make its clauses vacuous or unprovable by accident
	var mcs []string
	for nm := range vc.mentionedCalls {
		mcs = append(mcs, nm)
	}
	sort.Strings(mcs)
	for _, nm := range mcs {
		if !vc.countedCalls[nm] && !strings.Contains(vc.key, nm) {
			vc.errorf("%s: calls(%q) is mentioned but %s has no direct call of a function of that name (inlined, renamed or removed)", vc.key, nm, vc.key)
		}
	}
	// ensures at every return: one obligation per clause, conjoined over the returns
	rn := resultNames(fn)
	ensGoals := make([][]string, len(spec.Ensures))
	frameGoals := map[string][]string{}
	lockGoals := map[string][]string{}
	var condFrameGoals []string
	for _, r := range f.rets {
		r := r
		f.curReach = r.reach
		f.cur = r.state
		f.curBlock = r.block
		env := f.baseEnv(r.state)
		base := env.lookup
		rst := r.state
		env.lookup = func(name string) (TV, bool) {
			if tv, ok := base(name); ok {
				return tv, true
			}
			return f.freeVar(name, rst) // a captured variable: its value at the return
		}
		env.lookupOld = func(name string) (TV, bool) {
			if tv, ok := base(name); ok {
				return tv, true
			}
			return f.freeVar(name, entry)
		}
		rs := fn.Signature.Results()
		for i := 0; i < rs.Len(); i++ {
			env.results = append(env.results, TV{r.results[i], rs.At(i).Type()})
		}
		env.resultNames = rn
		for i, en := range spec.Ensures {
			if strings.HasPrefix(en.Name, "assume:") {
				// assumed at call sites, not proved here: listed in the evidence
				vc.assumed[vc.key+" ensures["+en.Name+"]"] = true
				continue
			}
			tv, err := env.tr(en.Expr)
			if err != nil {
				vc.errorf("%s:%d: %v", en.File, en.Line, err)
				continue
			}
			ensGoals[i] = append(ensGoals[i], Imp(r.reach, tv.T))
		}
		if spec.HasMod || spec.Pure {
			f.frameObligations(spec, entry, r.state, r.reach, frameGoals)
		}
		if spec.UnchangedUnless != nil {
			tv, err := env.tr(spec.UnchangedUnless.Expr)
			if err != nil {
				vc.errorf("%s:%d: %v", spec.UnchangedUnless.File, spec.UnchangedUnless.Line, err)
			} else {
				var ks []string
				for k := range r.state.m {
					ks = append(ks, k)
				}
				sort.Strings(ks)
				var gs []string
				for _, k := range ks {
					if _, known := vc.eng.keySort[k]; !known || !condFrameKey(k) {
						continue
					}
					nv, ov := f.get(r.state, k), f.get(entry, k)
					if nv != ov {
						gs = append(gs, S("=", nv, ov))
					}
				}
				if len(gs) > 0 {
					condFrameGoals = append(condFrameGoals, Imp(r.reach, Imp(Not(tv.T), And(gs...))))
				}
			}
		}
		f.lockBalance(entry, r.state, r.reach, lockGoals)
	}
	f.curReach = "true"
	if len(spec.Ensures) > 0 && len(f.rets) > 0 {
		var rr []string
		for _, r := range f.rets {
			rr = append(rr, r.reach)
		}
		f.probeAt("returns/vacuity", Or(rr...))
	}
	for i, en := range spec.Ensures {
		if len(ensGoals[i]) == 0 {
			continue
		}
		if os.Getenv("GOVC_SPLIT_RETS") != "" {
			for j, g := range ensGoals[i] {
				f.oblige("ensures", fmt.Sprintf("%s@ret%d", clauseName(en, "ensures", i), j+1), g, en.Text, token.NoPos)
			}
			continue
		}
		f.oblige("ensures", clauseName(en, "ensures", i), And(ensGoals[i]...), en.Text, token.NoPos)
	}
	if len(condFrameGoals) > 0 {
		f.oblige("cond-frame", "unchanged-unless", And(condFrameGoals...), spec.UnchangedUnless.Text, token.NoPos)
	}
	var fk []string
	for k := range frameGoals {
		fk = append(fk, k)
	}
	sort.Strings(fk)
	for _, k := range fk {
		f.oblige("frame", "frame:"+k, And(frameGoals[k]...), "modifies clause covers every write to "+k, token.NoPos)
	}
	var lk []string
	for k := range lockGoals {
		lk = append(lk, k)
	}
	sort.Strings(lk)
	for _, k := range lk {
		f.oblige("lock", "lock:balanced:"+strings.TrimPrefix(k, "lock:H:"), And(lockGoals[k]...), "every mutex is back in its entry state at return", token.NoPos)
	}
}

func (f *Frame) freeVar(name string, st *State) (TV, bool) {
	for _, fv := range f.fn.FreeVars {
		if fv.Name() == name {
			if t, ok := f.vals[fv]; ok {
				pt, _ := fv.Type().Underlying().(*types.Pointer)
				if pt != nil {
					return TV{f.loadPtr(st, t, pt.Elem()), pt.Elem()}, true
				}
			}
		}
	}
	return TV{}, false
}

// probe records a vacuity probe: `false` must NOT be provable here.
func (f *Frame) probe(name string) {
	vc := f.vc
	full := vc.key + "/" + name
	var props []string
	if vc.spec != nil {
		props = vc.spec.Props
	}
	vc.obls = append(vc.obls, &Obligation{Name: full, Fn: vc.key, Kind: "vacuity", Goal: Imp(f.curReach, "false"), Upto: len(vc.script.lines),
		Props: props, vc: vc, Probe: true, Text: "assumptions are satisfiable"})
}

// probeAt records a vacuity probe under a path condition.
func (f *Frame) probeAt(name, cond string) {
	vc := f.vc
	full := vc.key + "/" + f.idPrefixForName() + name
	vc.oblNames[full]++
	if n := vc.oblNames[full]; n > 1 {
		full = fmt.Sprintf("%s~%d", full, n)
	}
	var props []string
	if vc.spec != nil {
		props = vc.spec.Props
	}
	vc.obls = append(vc.obls, &Obligation{Name: full, Fn: vc.key, Kind: "vacuity", Goal: Imp(cond, "false"), Upto: len(vc.script.lines),
		Props: props, vc: vc, Probe: true, Text: "assumptions along this path are satisfiable"})
}

// frameObligations: every state key the body changed must be covered by the
// modifies clause (objects allocated during the call are free).
func (f *Frame) frameObligations(spec *FuncSpec, entry, final *State, reach string, goals map[string][]string) {
	vc := f.vc
	env := f.baseEnv(entry)
	base := env.lookup
	env.lookup = func(name string) (TV, bool) {
		if tv, ok := base(name); ok {
			return tv, true
		}
		return f.freeVar(name, entry)
	}
	targets := f.resolveModifies(spec.Modifies, env)
	byKey := map[string][]modTarget{}
	for _, t := range targets {
		byKey[t.key] = append(byKey[t.key], t)
	}
	alloc0 := f.get(entry, vc.allocKey())
	var keys []string
	for k := range final.m {
		keys = append(keys, k)
	}
	sort.Strings(keys)
	for _, k := range keys {
		if strings.HasPrefix(k, "L:") || strings.HasPrefix(k, "it:") {
			continue
		}
		nv, ov := f.get(final, k), f.get(entry, k)
		if nv == ov {
			continue
		}
		if strings.HasPrefix(k, "ghost:") {
			continue // a ghost counter, not program state
		}
		if k == "alloc" {
			if spec.Pure {
				// allocation is allowed for pure functions that return fresh errors etc.
			}
			continue
		}
		whole := false
		var excl []string
		for _, t := range byKey[k] {
			if t.idx == "" && t.cond == "" {
				whole = true
			}
			if t.idx != "" {
				excl = append(excl, Not(S("=", "r!m", t.idx)))
			}
			if t.cond != "" {
				excl = append(excl, Not(t.cond))
			}
		}
		if whole {
			continue
		}
		var goal string
		if strings.HasPrefix(vc.eng.keySort[k], "(Array Int") {
			cond := And(append([]string{S("<", "0", "r!m"), S("<=", "r!m", alloc0)}, excl...)...)
			goal = fmt.Sprintf("(forall ((r!m Int)) (=> %s (= (select %s r!m) (select %s r!m))))", cond, nv, ov)
		} else {
			goal = S("=", nv, ov)
		}
		goals[k] = append(goals[k], Imp(reach, goal))
	}
}

// ---------------------------------------------------------------------------
// lemmas

// lemmaAxiom returns the axiom form of a lemma (after it has been proved).
func (vc *FuncVC) lemmaAxiom(l *Lemma) (string, error) {
	decl, _, req, ens, err := vc.lemmaParts(l, "", true)
	if err != nil {
		return "", err
	}
	pre := req
	if l.Induct != "" {
		pre = And(S("<=", "0", "q!"+l.Induct), req)
	}
	body := Imp(pre, ens)
	if len(l.Triggers) > 0 {
		var pats []string
		for _, t := range l.Triggers {
			pats = append(pats, ":pattern ("+vc.lemmaTrigger(l, t)+")")
		}
		body = "(! " + body + " " + strings.Join(pats, " ") + ")"
	}
	if len(decl) == 0 {
		return "(assert " + body + ")", nil
	}
	return fmt.Sprintf("(assert (forall (%s) %s))", strings.Join(decl, " "), body), nil
}

func (vc *FuncVC) lemmaTrigger(l *Lemma, text string) string {
	var ts []string
	for _, part := range splitTop(text) {
		e, err := ParseExpr(part)
		if err != nil {
			vc.errorf("lemma %s trigger: %v", l.Name, err)
			continue
		}
		tv, err := vc.lemmaEnv.tr(e)
		if err != nil {
			vc.errorf("lemma %s trigger: %v", l.Name, err)
			continue
		}
		ts = append(ts, tv.T)
	}
	return strings.Join(ts, " ")
}

// lemmaParts translates a lemma with parameters named q!<name><sfx> and heap
// arrays named h!<key> (current) and h!<key>!old (inside old()).
func (vc *FuncVC) lemmaParts(l *Lemma, sfx string, rebase bool) (decl []string, heapDecl []string, req, ens string, err error) {
	var lenv *TEnv
	defer func() { vc.lemmaEnv = lenv }()
	ph := &paramHeap{vc: vc, used: map[string]bool{}}
	pho := &paramHeap{vc: vc, used: map[string]bool{}, sfx: "!old"}
	env := &TEnv{vc: vc, pkg: l.Pkg, vars: map[string]TV{}, cur: ph, old: pho}
	lenv = env
	for _, p := range l.Params {
		ty, e2 := vc.eng.evalType(l.Pkg, p.Type)
		if e2 != nil {
			return nil, nil, "", "", e2
		}
		env.vars[p.Name] = TV{"q!" + p.Name + sfx, ty}
		decl = append(decl, fmt.Sprintf("(q!%s%s %s)", p.Name, sfx, vc.eng.sortOf(ty)))
	}
	if rebase {
		// integer parameters used as slice indices occur bare in the axiom
		// (see the note on quantifiers in specx.go)
		for _, p := range l.Params {
			tv := env.vars[p.Name]
			if !isIntType(tv.Ty) {
				continue
			}
			only := map[string]bool{p.Name: true}
			var se Expr
			for _, c := range append(append([]*Clause{}, l.Requires...), l.Ensures...) {
				if se = findIndexedSlice(c.Expr, p.Name, only); se != nil {
					break
				}
			}
			if se == nil {
				continue
			}
			if stv, err := env.tr(se); err == nil && stv.Ty != nil {
				if _, isSl := stv.Ty.Underlying().(*types.Slice); isSl {
					env.vars[p.Name] = TV{S("-", tv.T, S("s-off", stv.T)), tv.Ty}
				}
			}
		}
	}
	var rs, es []string
	for _, c := range l.Requires {
		tv, e2 := env.tr(c.Expr)
		if e2 != nil {
			return nil, nil, "", "", fmt.Errorf("%s:%d: %v", c.File, c.Line, e2)
		}
		rs = append(rs, tv.T)
	}
	for _, c := range l.Ensures {
		tv, e2 := env.tr(c.Expr)
		if e2 != nil {
			return nil, nil, "", "", fmt.Errorf("%s:%d: %v", c.File, c.Line, e2)
		}
		es = append(es, tv.T)
	}
	for _, h := range []*paramHeap{ph, pho} {
		var keys []string
		for k := range h.used {
			keys = append(keys, k)
		}
		sort.Strings(keys)
		for _, k := range keys {
			heapDecl = append(heapDecl, fmt.Sprintf("(h!%s%s %s)", sym(k), h.sfx, vc.eng.keySort[k]))
		}
	}
	decl = append(decl, heapDecl...)
	return decl, heapDecl, And(rs...), And(es...), nil
}

// genLemma produces the proof obligation(s) of a lemma.
func (vc *FuncVC) genLemma(l *Lemma) {
	vc.reset()
	vc.lemmaReveal = l.Reveal
	vc.key = "lemma:" + l.Name
	decl, _, req, ens, err := vc.lemmaParts(l, "", false)
	if err != nil {
		vc.errorf("%v", err)
		return
	}
	// declare parameters as constants
	for _, d := range decl {
		d = strings.TrimPrefix(d, "(")
		d = strings.TrimSuffix(d, ")")
		sp := strings.SplitN(d, " ", 2)
		vc.script.add(fmt.Sprintf("(declare-const %s %s)", sp[0], sp[1]))
	}
	// other lemmas this one uses
	for _, u := range l.Uses {
		vc.usedLemmas[u] = true
	}
	if l.Induct != "" {
		k := "q!" + l.Induct
		// induction hypothesis: the lemma at k-1 for all other parameters
		var odecl []string
		sub := map[string]string{}
		for _, p := range l.Params {
			ty, _ := vc.eng.evalType(l.Pkg, p.Type)
			if p.Name == l.Induct {
				continue
			}
			odecl = append(odecl, fmt.Sprintf("(q!%s!ih %s)", p.Name, vc.eng.sortOf(ty)))
			sub[p.Name] = "q!" + p.Name + "!ih"
		}
		// re-translate with renamed params
		ph := &paramHeap{vc: vc, used: map[string]bool{}}
		pho := &paramHeap{vc: vc, used: map[string]bool{}, sfx: "!old"}
		env := &TEnv{vc: vc, pkg: l.Pkg, vars: map[string]TV{}, cur: ph, old: pho}
		for _, p := range l.Params {
			ty, _ := vc.eng.evalType(l.Pkg, p.Type)
			if p.Name == l.Induct {
				env.vars[p.Name] = TV{S("-", k, "1"), ty}
			} else {
				env.vars[p.Name] = TV{sub[p.Name], ty}
			}
		}
		var rs, es []string
		for _, c := range l.Requires {
			tv, _ := env.tr(c.Expr)
			rs = append(rs, tv.T)
		}
		for _, c := range l.Ensures {
			tv, _ := env.tr(c.Expr)
			es = append(es, tv.T)
		}
		ih := Imp(And(append([]string{S("<=", "0", S("-", k, "1"))}, rs...)...), And(es...))
		if len(odecl) > 0 {
			ih = fmt.Sprintf("(forall (%s) %s)", strings.Join(odecl, " "), ih)
		}
		vc.assume(ih)
		vc.assume(S("<=", "0", k))
	}
	vc.assume(req)
	var props = l.Props
	vc.obls = append(vc.obls, &Obligation{Name: "lemma:" + l.Name + "/vacuity", Fn: vc.key, Kind: "vacuity", Goal: "false", Upto: len(vc.script.lines), Props: props, vc: vc, Probe: true})
	kind := "direct"
	if l.Induct != "" {
		kind = "induction on " + l.Induct
	}
	vc.obls = append(vc.obls, &Obligation{Name: "lemma:" + l.Name + "/proof", Fn: vc.key, Kind: "lemma", Goal: ens, Upto: len(vc.script.lines), Props: props, vc: vc,
		Text: kind, LoopFree: false})
}

// ---------------------------------------------------------------------------
// SMT file assembly

func (o *Obligation) SMT(withModel bool) string {
	vc := o.vc
	var body strings.Builder
	for _, n := range vc.specOrder {
		if info := vc.specInfo[n]; info != nil && info.def != "" {
			body.WriteString(info.def + "\n")
		}
	}
	for _, ax := range vc.axioms {
		body.WriteString(ax + "\n")
	}
	for _, l := range vc.script.lines[:o.Upto] {
		body.WriteString(l + "\n")
	}
	for _, x := range o.Extra {
		body.WriteString("(assert " + x + ")\n")
	}
	body.WriteString("(assert (not " + o.Goal + "))\n(check-sat)\n")
	if withModel {
		body.WriteString("(get-model)\n")
	}
	bs := body.String()
	usesStr := false
	for _, w := range []string{"(slen ", "(sbyte ", "(scat ", "(ssub ", "(strlt ", "str_of_rune"} {
		if strings.Contains(bs, w) {
			usesStr = true
		}
	}
	var sb strings.Builder
	sb.WriteString("; obligation " + o.Name + "\n")
	if o.Text != "" {
		sb.WriteString("; " + strings.ReplaceAll(o.Text, "\n", " ") + "\n")
	}
	sb.WriteString("(set-logic ALL)\n")
	sb.WriteString(preamble)
	if usesStr {
		sb.WriteString(strAxioms)
		if strings.Contains(bs, "str_of_rune") {
			sb.WriteString("(declare-fun str_of_rune (Int) Str)\n(assert (forall ((r Int)) (! (and (<= 1 (slen (str_of_rune r))) (<= (slen (str_of_rune r)) 4)) :pattern ((str_of_rune r)))))\n(assert (forall ((r Int)) (! (=> (and (<= 0 r) (< r 128)) (and (= (slen (str_of_rune r)) 1) (= (sbyte (str_of_rune r) 0) r))) :pattern ((str_of_rune r)))))\n")
		}
	}
	for _, d := range vc.eng.sorts.decls {
		sb.WriteString(d + "\n")
	}
	for _, d := range vc.eng.strLitDecls(usesStr) {
		sb.WriteString(d + "\n")
	}
	for _, d := range vc.declInitials() {
		sb.WriteString(d + "\n")
	}
	sb.WriteString(bs)
	return sb.String()
}

// finish resolves lemma axioms and package axioms after generation.
func (vc *FuncVC) finish() {
	vc.axioms = nil
	var uses []string
	if vc.spec != nil {
		uses = append(uses, vc.spec.Uses...)
	}
	for u := range vc.usedLemmas {
		uses = append(uses, u)
	}
	sort.Strings(uses)
	seen := map[string]bool{}
	for _, u := range uses {
		if seen[u] {
			continue
		}
		seen[u] = true
		l := vc.eng.lemmas[u]
		if l == nil {
			vc.errorf("unknown lemma %s", u)
			continue
		}
		ax, err := vc.lemmaAxiom(l)
		if err != nil {
			vc.errorf("lemma %s: %v", u, err)
			continue
		}
		vc.axioms = append(vc.axioms, "; lemma "+u, ax)
	}
}

func fnPosition(e *Engine, fn *ssa.Function) string { return e.pos(fn.Pos()) }
