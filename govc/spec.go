package main

// Contract files: structured `//@` comments in comment-only Go files behind the
// build tag `verif`. This file holds the clause parser and the expression
// parser of the contract language (Go expression syntax plus
// ==> <==> forall exists old() result ?:).

import (
	"fmt"
	"math/big"
	"os"
	"strconv"
	"strings"
	"unicode"
)

// ---------------------------------------------------------------------------
// expressions

type Expr interface{}

type (
	EInt   struct{ V *big.Int }
	EStr   struct{ V string }
	EBool  struct{ V bool }
	ENil   struct{}
	EIdent struct{ Name string }
	EUn    struct {
		Op string
		X  Expr
	}
	EBin struct {
		Op   string
		X, Y Expr
	}
	ECond struct{ C, A, B Expr }
	ECall struct {
		Fn   string
		Args []Expr
	}
	EField struct {
		X    Expr
		Name string
	}
	EIndex struct{ X, I Expr }
	ESlice struct{ X, Lo, Hi Expr }
	EQuant struct {
		Forall   bool
		Vars     []Binder
		Body     Expr
		Triggers [][]Expr
	}
	ELet struct {
		Name    string
		V, Body Expr
	}
	ETypeIs struct { // typeof(x) == T
		X    Expr
		Type string
	}
)

type Binder struct{ Name, Type string }

type tok struct {
	k string // "id", "int", "str", "op", "eof"
	s string
}

func lexExpr(src string) ([]tok, error) {
	var out []tok
	i := 0
	for i < len(src) {
		c := src[i]
		switch {
		case c == ' ' || c == '\t' || c == '\n':
			i++
		case unicode.IsLetter(rune(c)) || c == '_':
			j := i
			for j < len(src) && (unicode.IsLetter(rune(src[j])) || unicode.IsDigit(rune(src[j])) || src[j] == '_') {
				j++
			}
			out = append(out, tok{"id", src[i:j]})
			i = j
		case c >= '0' && c <= '9':
			j := i
			for j < len(src) && (src[j] >= '0' && src[j] <= '9' || src[j] == 'x' || src[j] >= 'a' && src[j] <= 'f' || src[j] >= 'A' && src[j] <= 'F' || src[j] == '_') {
				j++
			}
			out = append(out, tok{"int", src[i:j]})
			i = j
		case c == '"':
			j := i + 1
			for j < len(src) && src[j] != '"' {
				if src[j] == '\\' {
					j++
				}
				j++
			}
			if j >= len(src) {
				return nil, fmt.Errorf("unterminated string in %q", src)
			}
			s, err := strconv.Unquote(src[i : j+1])
			if err != nil {
				return nil, fmt.Errorf("bad string %s", src[i:j+1])
			}
			out = append(out, tok{"str", s})
			i = j + 1
		case c == '\'':
			// rune literal
			j := i + 1
			for j < len(src) && src[j] != '\'' {
				if src[j] == '\\' {
					j++
				}
				j++
			}
			if j >= len(src) {
				return nil, fmt.Errorf("unterminated rune in %q", src)
			}
			r, _, _, err := strconv.UnquoteChar(src[i+1:j], '\'')
			if err != nil {
				return nil, fmt.Errorf("bad rune %s", src[i:j+1])
			}
			out = append(out, tok{"int", strconv.Itoa(int(r))})
			i = j + 1
		default:
			ops := []string{"<==>", "==>", "::", "==", "!=", "<=", ">=", "&&", "||", "..",
				"<", ">", "!", "+", "-", "*", "/", "%", "(", ")", "[", "]", "{", "}", ",", ".", ":", "?", "=", ";"}
			found := false
			for _, op := range ops {
				if strings.HasPrefix(src[i:], op) {
					out = append(out, tok{"op", op})
					i += len(op)
					found = true
					break
				}
			}
			if !found {
				return nil, fmt.Errorf("unexpected character %q in %q", c, src)
			}
		}
	}
	out = append(out, tok{"eof", ""})
	return out, nil
}

type eparser struct {
	toks []tok
	p    int
	src  string
}

func (p *eparser) peek() tok { return p.toks[p.p] }
func (p *eparser) next() tok { t := p.toks[p.p]; p.p++; return t }
func (p *eparser) isOp(s string) bool {
	t := p.peek()
	return t.k == "op" && t.s == s
}
func (p *eparser) isID(s string) bool {
	t := p.peek()
	return t.k == "id" && t.s == s
}
func (p *eparser) accept(s string) bool {
	if p.isOp(s) {
		p.p++
		return true
	}
	return false
}
func (p *eparser) expect(s string) {
	if !p.accept(s) {
		panic(fmt.Errorf("expected %q at token %d (%q) in %q", s, p.p, p.peek().s, p.src))
	}
}

func ParseExpr(src string) (e Expr, err error) {
	toks, err := lexExpr(src)
	if err != nil {
		return nil, err
	}
	p := &eparser{toks: toks, src: src}
	defer func() {
		if r := recover(); r != nil {
			if er, ok := r.(error); ok {
				err = er
				return
			}
			panic(r)
		}
	}()
	e = p.expr()
	if p.peek().k != "eof" {
		return nil, fmt.Errorf("trailing input %q in %q", p.peek().s, src)
	}
	return e, nil
}

func (p *eparser) expr() Expr {
	c := p.iff()
	if p.accept("?") {
		a := p.expr()
		p.expect(":")
		b := p.expr()
		return &ECond{c, a, b}
	}
	return c
}

func (p *eparser) iff() Expr {
	x := p.impl()
	for p.accept("<==>") {
		y := p.impl()
		x = &EBin{"<==>", x, y}
	}
	return x
}

func (p *eparser) impl() Expr {
	x := p.or()
	if p.accept("==>") {
		y := p.impl()
		return &EBin{"==>", x, y}
	}
	return x
}

func (p *eparser) or() Expr {
	x := p.and()
	for p.accept("||") {
		y := p.and()
		x = &EBin{"||", x, y}
	}
	return x
}

func (p *eparser) and() Expr {
	x := p.cmp()
	for p.accept("&&") {
		y := p.cmp()
		x = &EBin{"&&", x, y}
	}
	return x
}

func (p *eparser) cmp() Expr {
	x := p.add()
	var res Expr
	for {
		t := p.peek()
		if t.k != "op" {
			break
		}
		switch t.s {
		case "==", "!=", "<", "<=", ">", ">=":
		default:
			goto done
		}
		p.next()
		y := p.add()
		var c Expr = &EBin{t.s, x, y}
		if res == nil {
			res = c
		} else {
			res = &EBin{"&&", res, c}
		}
		x = y
	}
done:
	if res != nil {
		return res
	}
	return x
}

func (p *eparser) add() Expr {
	x := p.mul()
	for p.isOp("+") || p.isOp("-") {
		op := p.next().s
		y := p.mul()
		x = &EBin{op, x, y}
	}
	return x
}

func (p *eparser) mul() Expr {
	x := p.unary()
	for p.isOp("*") || p.isOp("/") || p.isOp("%") {
		op := p.next().s
		y := p.unary()
		x = &EBin{op, x, y}
	}
	return x
}

func (p *eparser) unary() Expr {
	if p.accept("!") {
		return &EUn{"!", p.unary()}
	}
	if p.accept("-") {
		return &EUn{"-", p.unary()}
	}
	if p.accept("*") {
		return &EUn{"*", p.unary()}
	}
	return p.postfix()
}

func (p *eparser) postfix() Expr {
	x := p.primary()
	for {
		switch {
		case p.accept("."):
			t := p.next()
			if t.k != "id" {
				panic(fmt.Errorf("expected field name in %q", p.src))
			}
			x = &EField{x, t.s}
		case p.accept("["):
			if p.accept(":") {
				hi := p.expr()
				p.expect("]")
				x = &ESlice{x, nil, hi}
				continue
			}
			i := p.expr()
			if p.accept(":") {
				var hi Expr
				if !p.isOp("]") {
					hi = p.expr()
				}
				p.expect("]")
				x = &ESlice{x, i, hi}
				continue
			}
			p.expect("]")
			x = &EIndex{x, i}
		default:
			return x
		}
	}
}

// typeText collects the raw text of a Go type up to a top-level delimiter.
func (p *eparser) typeText() string {
	var sb strings.Builder
	depth := 0
	for {
		t := p.peek()
		if t.k == "eof" {
			break
		}
		if t.k == "op" {
			if depth == 0 && (t.s == "," || t.s == ")" || t.s == "::" || t.s == "=" || t.s == "}") {
				break
			}
			if t.s == "[" || t.s == "(" || t.s == "{" {
				depth++
			}
			if t.s == "]" || t.s == ")" || t.s == "}" {
				depth--
			}
		}
		if t.k == "id" && sb.Len() > 0 {
			last := sb.String()[sb.Len()-1]
			if unicode.IsLetter(rune(last)) || unicode.IsDigit(rune(last)) {
				sb.WriteByte(' ')
			}
		}
		sb.WriteString(t.s)
		p.next()
	}
	return sb.String()
}

func (p *eparser) binders(end string) []Binder {
	var bs []Binder
	var pending []string
	for {
		t := p.next()
		if t.k != "id" {
			panic(fmt.Errorf("expected binder name, got %q in %q", t.s, p.src))
		}
		if p.accept(",") {
			pending = append(pending, t.s)
			continue
		}
		if p.isOp(end) {
			// untyped binder: int
			for _, n := range pending {
				bs = append(bs, Binder{n, "int"})
			}
			bs = append(bs, Binder{t.s, "int"})
			return bs
		}
		ty := p.typeText()
		for _, n := range pending {
			bs = append(bs, Binder{n, ty})
		}
		pending = nil
		bs = append(bs, Binder{t.s, ty})
		if p.accept(",") {
			continue
		}
		return bs
	}
}

func (p *eparser) primary() Expr {
	t := p.next()
	switch t.k {
	case "int":
		n, ok := new(big.Int).SetString(strings.ReplaceAll(t.s, "_", ""), 0)
		if !ok {
			panic(fmt.Errorf("bad integer %q", t.s))
		}
		return &EInt{n}
	case "str":
		return &EStr{t.s}
	case "op":
		if t.s == "(" {
			e := p.expr()
			p.expect(")")
			return e
		}
		panic(fmt.Errorf("unexpected %q in %q", t.s, p.src))
	case "id":
		switch t.s {
		case "true":
			return &EBool{true}
		case "false":
			return &EBool{false}
		case "nil":
			return &ENil{}
		case "forall", "exists":
			bs := p.binders("::")
			p.expect("::")
			var trig [][]Expr
			for p.isOp("{") {
				p.next()
				var tr []Expr
				for {
					tr = append(tr, p.expr())
					if !p.accept(",") {
						break
					}
				}
				p.expect("}")
				trig = append(trig, tr)
			}
			body := p.expr()
			return &EQuant{t.s == "forall", bs, body, trig}
		case "let":
			n := p.next()
			p.expect("=")
			v := p.expr()
			if !p.isID("in") {
				panic(fmt.Errorf("expected 'in' in let in %q", p.src))
			}
			p.next()
			b := p.expr()
			return &ELet{n.s, v, b}
		}
		if p.accept("(") {
			if t.s == "typeis" {
				x := p.expr()
				p.expect(",")
				ty := p.typeText()
				p.expect(")")
				return &ETypeIs{x, ty}
			}
			var args []Expr
			if !p.isOp(")") {
				for {
					args = append(args, p.expr())
					if !p.accept(",") {
						break
					}
				}
			}
			p.expect(")")
			return &ECall{t.s, args}
		}
		return &EIdent{t.s}
	}
	panic(fmt.Errorf("unexpected end of expression in %q", p.src))
}

// ---------------------------------------------------------------------------
// clauses and files

type Clause struct {
	Kind string // requires ensures invariant decreases body_ensures modifies ...
	Name string // optional [name]
	Text string
	Expr Expr
	File string
	Line int
}

type LoopSpec struct {
	HasMod    bool
	N         int
	Invs      []*Clause
	BodyEns   []*Clause
	BodyRet   []*Clause
	ExitEns   []*Clause // at every edge that leaves the loop from its head
	BreakEns  []*Clause // at every edge that leaves the loop from another block of it
	Decreases *Clause
	Modifies  []*Clause
}

type SplitSpec struct {
	Text   string
	Expr   Expr
	Lo, Hi int64
}

type FuncSpec struct {
	Name            string
	Pkg             string
	Props           []string
	Requires        []*Clause
	Ensures         []*Clause
	Modifies        []*Clause
	HasMod          bool
	Loops           map[int]*LoopSpec
	Safe            bool
	NoWrap          bool
	WrapOK          []string
	Inline          bool
	Trusted         bool // contract assumed, body not verified (listed in evidence)
	Pure            bool
	Decreases       *Clause
	Uses            []string
	Splits          []*SplitSpec
	Asserts         []*Clause
	CallAsserts     []*CallAssert       // before / after <callee>[#n]: assertions anchored at a call site
	Only            []string            // partial contract: only obligations whose name contains one of these are claimed
	UnchangedUnless *Clause             // conditional frame: unless this two-state condition holds, the call leaves every state key as it was
	ClauseProps     map[string][]string // props_of <clause name> <props...>: the obligation of that clause carries these properties instead of the function's
	NoPanicOff      bool
	Implementations bool // contract on an interface method, checked against every implementation
	Reveal          []string
	File            string
	Line            int
	Timeout         int
}

// CallAssert is an assertion in the caller's context at the n-th call of a
// callee (occurrence order of generation): "before" sees the actual arguments
// as arg0, arg1, ... (receiver first), "after" also the results as ret0, ...
type CallAssert struct {
	After  bool
	Callee string // e.g. (*Entry).merge or yang.(*Entry).merge
	N      int    // 1-based occurrence
	C      *Clause
}

type SpecFn struct {
	Name    string
	Params  []Binder
	Ret     string
	Body    Expr
	Text    string
	Opaque  bool
	File    string
	Line    int
	Pkg     string
	Uninter bool // declared without body
}

type Lemma struct {
	Name     string
	Params   []Binder
	Requires []*Clause
	Ensures  []*Clause
	Induct   string // variable of induction, "" = direct
	Uses     []string
	Triggers []string
	Reveal   []string
	Props    []string
	Pkg      string
	File     string
	Line     int
}

type Axiom struct {
	Name string
	Text string
	Expr Expr
	Pkg  string
	Line int
	File string
}

type GuardSpec struct {
	WritesOnly bool
	Field      string // Type.field
	Mutex      string // field name of the mutex in the same struct
	Pkg        string
}

type SpecFile struct {
	InitOnly    []string
	LockProps   []string
	OpaqueNames []string
	Funcs       map[string]*FuncSpec // key: pkgname.relname
	Order       []string
	Specs       []*SpecFn
	Lemmas      []*Lemma
	Axioms      []*Axiom
	Guards      []*GuardSpec
	Files       []string
}

func newSpecFile() *SpecFile { return &SpecFile{Funcs: map[string]*FuncSpec{}} }

var clauseKW = map[string]bool{
	"spec": true, "pred": true, "lemma": true, "func": true, "requires": true, "ensures": true,
	"modifies": true, "loop": true, "invariant": true, "decreases": true, "safe": true,
	"nowrap": true, "wrapok": true, "inline": true, "trusted": true, "uses": true, "split": true, "props": true,
	"axiom": true, "induction": true, "guarded_by": true, "pure": true, "assert": true, "timeout": true,
	"trigger": true, "abstract": true, "opaque": true, "reveal": true, "implementations": true, "body_ensures": true, "body_returns": true, "exit_ensures": true, "break_ensures": true, "lock_property": true, "init_only": true, "write_guarded_by": true, "before": true, "after": true, "only": true, "props_of": true, "unchanged_unless": true,
}

func splitName(rest string) (name, body string) {
	rest = strings.TrimSpace(rest)
	if strings.HasPrefix(rest, "[") {
		if j := strings.Index(rest, "]"); j > 0 {
			return rest[1:j], strings.TrimSpace(rest[j+1:])
		}
	}
	return "", rest
}

func (sf *SpecFile) mustExpr(text, file string, line int) Expr {
	e, err := ParseExpr(text)
	if err != nil {
		panic(fmt.Errorf("%s:%d: %v", file, line, err))
	}
	return e
}

// parseSig parses `name(params) ret` returning the rest after it.
func parseSig(text string) (name string, params []Binder, rest string, err error) {
	toks, err := lexExpr(text)
	if err != nil {
		return "", nil, "", err
	}
	p := &eparser{toks: toks, src: text}
	defer func() {
		if r := recover(); r != nil {
			if er, ok := r.(error); ok {
				err = er
				return
			}
			panic(r)
		}
	}()
	t := p.next()
	if t.k != "id" {
		return "", nil, "", fmt.Errorf("expected name in %q", text)
	}
	name = t.s
	p.expect("(")
	if !p.isOp(")") {
		params = p.binders(")")
	}
	p.expect(")")
	// rest as raw text: find position by re-lexing is awkward; rebuild from tokens
	var sb strings.Builder
	for p.peek().k != "eof" {
		t := p.next()
		if t.k == "str" {
			sb.WriteString(strconv.Quote(t.s))
		} else {
			sb.WriteString(t.s)
		}
		sb.WriteByte(' ')
	}
	return name, params, strings.TrimSpace(sb.String()), nil
}

// Load reads the `//@` lines of one contract file. pkg is the Go package name
// the file belongs to.
func (sf *SpecFile) Load(path, pkg string) (err error) {
	data, err := os.ReadFile(path)
	if err != nil {
		return err
	}
	sf.Files = append(sf.Files, path)
	type rawClause struct {
		kw, rest string
		line     int
	}
	var raws []rawClause
	for i, ln := range strings.Split(string(data), "\n") {
		t := strings.TrimSpace(ln)
		if !strings.HasPrefix(t, "//@") {
			continue
		}
		t = strings.TrimSpace(t[3:])
		if t == "" || strings.HasPrefix(t, "--") || strings.HasPrefix(t, "#") {
			continue
		}
		// strip trailing comment
		if j := strings.Index(t, " -- "); j >= 0 {
			t = strings.TrimSpace(t[:j])
		}
		kw := t
		rest := ""
		if j := strings.IndexAny(t, " \t["); j > 0 {
			kw, rest = t[:j], strings.TrimSpace(t[j:])
		}
		if clauseKW[kw] {
			raws = append(raws, rawClause{kw, rest, i + 1})
		} else if len(raws) > 0 {
			raws[len(raws)-1].rest += " " + t
		} else {
			return fmt.Errorf("%s:%d: continuation without clause", path, i+1)
		}
	}
	var cur *FuncSpec
	var curLoop *LoopSpec
	var curLemma *Lemma
	defer func() {
		if r := recover(); r != nil {
			if er, ok := r.(error); ok {
				err = er
				return
			}
			panic(r)
		}
	}()
	for _, rc := range raws {
		mk := func() *Clause {
			name, body := splitName(rc.rest)
			return &Clause{Kind: rc.kw, Name: name, Text: body, Expr: sf.mustExpr(body, path, rc.line), File: path, Line: rc.line}
		}
		switch rc.kw {
		case "spec", "pred", "abstract":
			cur, curLoop, curLemma = nil, nil, nil
			eq := -1
			// find top-level '=' that is not part of == <= >= != ==>
			depth := 0
			for i := 0; i < len(rc.rest); i++ {
				c := rc.rest[i]
				if c == '(' || c == '[' {
					depth++
				}
				if c == ')' || c == ']' {
					depth--
				}
				if c == '=' && depth == 0 {
					prev := byte(' ')
					if i > 0 {
						prev = rc.rest[i-1]
					}
					nxt := byte(' ')
					if i+1 < len(rc.rest) {
						nxt = rc.rest[i+1]
					}
					if prev != '=' && prev != '<' && prev != '>' && prev != '!' && nxt != '=' {
						eq = i
						break
					}
				}
			}
			sigText := rc.rest
			bodyText := ""
			if eq >= 0 {
				sigText, bodyText = rc.rest[:eq], strings.TrimSpace(rc.rest[eq+1:])
			}
			name, params, ret, err := parseSig(sigText)
			if err != nil {
				return fmt.Errorf("%s:%d: %v", path, rc.line, err)
			}
			ret = strings.ReplaceAll(ret, " ", "")
			if rc.kw == "pred" && ret == "" {
				ret = "bool"
			}
			fn := &SpecFn{Name: name, Params: params, Ret: ret, Text: bodyText, File: path, Line: rc.line, Pkg: pkg}
			if bodyText == "" {
				fn.Uninter = true
			} else {
				fn.Body = sf.mustExpr(bodyText, path, rc.line)
			}
			sf.Specs = append(sf.Specs, fn)
		case "axiom":
			cur, curLoop, curLemma = nil, nil, nil
			name, body := splitName(rc.rest)
			sf.Axioms = append(sf.Axioms, &Axiom{Name: name, Text: body, Expr: sf.mustExpr(body, path, rc.line), Pkg: pkg, Line: rc.line, File: path})
		case "opaque":
			for _, n := range strings.Fields(rc.rest) {
				sf.OpaqueNames = append(sf.OpaqueNames, n)
			}
		case "reveal":
			if curLemma != nil {
				curLemma.Reveal = append(curLemma.Reveal, strings.Fields(rc.rest)...)
			} else if cur != nil {
				cur.Reveal = append(cur.Reveal, strings.Fields(rc.rest)...)
			}
		case "init_only":
			sf.InitOnly = append(sf.InitOnly, strings.Fields(rc.rest)...)
		case "lock_property":
			sf.LockProps = append(sf.LockProps, strings.Fields(rc.rest)...)
		case "guarded_by", "write_guarded_by":
			f := strings.Fields(rc.rest)
			if len(f) != 2 {
				return fmt.Errorf("%s:%d: guarded_by Type.field mutexfield", path, rc.line)
			}
			sf.Guards = append(sf.Guards, &GuardSpec{Field: f[0], Mutex: f[1], Pkg: pkg, WritesOnly: rc.kw == "write_guarded_by"})
		case "lemma":
			cur, curLoop = nil, nil
			name, params, rest, err := parseSig(rc.rest)
			if err != nil {
				return fmt.Errorf("%s:%d: %v", path, rc.line, err)
			}
			curLemma = &Lemma{Name: name, Params: params, Pkg: pkg, File: path, Line: rc.line}
			f := strings.Fields(rest)
			for i := 0; i+1 < len(f); i++ {
				if f[i] == "props" {
					curLemma.Props = f[i+1:]
				}
			}
			sf.Lemmas = append(sf.Lemmas, curLemma)
		case "induction":
			if curLemma == nil {
				return fmt.Errorf("%s:%d: induction outside lemma", path, rc.line)
			}
			curLemma.Induct = strings.TrimSpace(rc.rest)
		case "func":
			curLoop, curLemma = nil, nil
			f := strings.Fields(rc.rest)
			if len(f) == 0 {
				return fmt.Errorf("%s:%d: func needs a name", path, rc.line)
			}
			key := pkg + "." + f[0]
			cur = sf.Funcs[key]
			if cur == nil {
				cur = &FuncSpec{Name: f[0], Pkg: pkg, Loops: map[int]*LoopSpec{}, File: path, Line: rc.line}
				sf.Funcs[key] = cur
				sf.Order = append(sf.Order, key)
			}
			for i := 1; i < len(f); i++ {
				if f[i] == "props" {
					cur.Props = append(cur.Props, f[i+1:]...)
					break
				}
				switch f[i] {
				case "trusted":
					cur.Trusted = true
				case "pure":
					cur.Pure = true
				case "safe":
					cur.Safe = true
				case "nowrap":
					cur.NoWrap = true
				case "inline":
					cur.Inline = true
				case "implementations":
					cur.Implementations = true
				default:
					return fmt.Errorf("%s:%d: unexpected %q after the function name", path, rc.line, f[i])
				}
			}
		case "props":
			if curLemma != nil {
				curLemma.Props = append(curLemma.Props, strings.Fields(rc.rest)...)
			} else if cur != nil {
				cur.Props = append(cur.Props, strings.Fields(rc.rest)...)
			}
		case "requires":
			if curLemma != nil {
				curLemma.Requires = append(curLemma.Requires, mk())
			} else if cur != nil {
				cur.Requires = append(cur.Requires, mk())
			} else {
				return fmt.Errorf("%s:%d: requires outside func", path, rc.line)
			}
		case "ensures":
			if curLemma != nil {
				curLemma.Ensures = append(curLemma.Ensures, mk())
			} else if cur != nil {
				cur.Ensures = append(cur.Ensures, mk())
			} else {
				return fmt.Errorf("%s:%d: ensures outside func", path, rc.line)
			}
		case "assert":
			if cur == nil {
				return fmt.Errorf("%s:%d: assert outside func", path, rc.line)
			}
			cur.Asserts = append(cur.Asserts, mk())
		case "unchanged_unless":
			if cur == nil {
				return fmt.Errorf("%s:%d: unchanged_unless outside func", path, rc.line)
			}
			cur.UnchangedUnless = mk()
		case "props_of":
			if cur == nil {
				return fmt.Errorf("%s:%d: props_of outside func", path, rc.line)
			}
			f := strings.Fields(rc.rest)
			if len(f) < 2 {
				return fmt.Errorf("%s:%d: props_of <clause name> <properties>", path, rc.line)
			}
			if cur.ClauseProps == nil {
				cur.ClauseProps = map[string][]string{}
			}
			cur.ClauseProps[f[0]] = f[1:]
		case "only":
			if cur == nil {
				return fmt.Errorf("%s:%d: only outside func", path, rc.line)
			}
			cur.Only = append(cur.Only, strings.Fields(rc.rest)...)
		case "before", "after":
			if cur == nil {
				return fmt.Errorf("%s:%d: %s outside func", path, rc.line, rc.kw)
			}
			name, body := splitName(rc.rest)
			body = strings.TrimSpace(body)
			j := strings.IndexAny(body, " \t")
			if j < 0 {
				return fmt.Errorf("%s:%d: %s <callee>[#n] <expr>", path, rc.line, rc.kw)
			}
			callee, ex := body[:j], strings.TrimSpace(body[j:])
			n := 1
			if h := strings.LastIndex(callee, "#"); h > 0 {
				fmt.Sscan(callee[h+1:], &n)
				callee = callee[:h]
			}
			cur.CallAsserts = append(cur.CallAsserts, &CallAssert{After: rc.kw == "after", Callee: callee, N: n,
				C: &Clause{Kind: rc.kw, Name: name, Text: ex, Expr: sf.mustExpr(ex, path, rc.line), File: path, Line: rc.line}})
		case "modifies":
			if cur == nil {
				return fmt.Errorf("%s:%d: modifies outside func", path, rc.line)
			}
			target := &cur.Modifies
			if curLoop != nil {
				target = &curLoop.Modifies
				curLoop.HasMod = true
			} else {
				cur.HasMod = true
			}
			if strings.TrimSpace(rc.rest) == "nothing" {
				continue
			}
			for _, part := range splitTop(rc.rest) {
				*target = append(*target, &Clause{Kind: "modifies", Text: part, Expr: sf.mustExpr(part, path, rc.line), File: path, Line: rc.line})
			}
		case "loop":
			if cur == nil {
				return fmt.Errorf("%s:%d: loop outside func", path, rc.line)
			}
			n, err := strconv.Atoi(strings.TrimSpace(rc.rest))
			if err != nil {
				return fmt.Errorf("%s:%d: loop N", path, rc.line)
			}
			curLoop = cur.Loops[n]
			if curLoop == nil {
				curLoop = &LoopSpec{N: n}
				cur.Loops[n] = curLoop
			}
		case "body_ensures":
			if curLoop == nil {
				return fmt.Errorf("%s:%d: body_ensures outside loop", path, rc.line)
			}
			curLoop.BodyEns = append(curLoop.BodyEns, mk())
		case "exit_ensures", "break_ensures":
			if curLoop == nil {
				return fmt.Errorf("%s:%d: %s outside loop", path, rc.line, rc.kw)
			}
			if rc.kw == "exit_ensures" {
				curLoop.ExitEns = append(curLoop.ExitEns, mk())
			} else {
				curLoop.BreakEns = append(curLoop.BreakEns, mk())
			}
		case "body_returns":
			if curLoop == nil {
				return fmt.Errorf("%s:%d: body_returns outside loop", path, rc.line)
			}
			curLoop.BodyRet = append(curLoop.BodyRet, mk())
		case "invariant":
			if curLoop == nil {
				return fmt.Errorf("%s:%d: invariant outside loop", path, rc.line)
			}
			curLoop.Invs = append(curLoop.Invs, mk())
		case "decreases":
			if curLoop != nil {
				curLoop.Decreases = mk()
			} else if cur != nil {
				cur.Decreases = mk()
			} else {
				return fmt.Errorf("%s:%d: decreases outside func", path, rc.line)
			}
		case "safe":
			cur.Safe = true
		case "nowrap":
			cur.NoWrap = true
		case "wrapok":
			cur.WrapOK = append(cur.WrapOK, strings.TrimSpace(rc.rest))
		case "inline":
			cur.Inline = true
		case "trusted":
			cur.Trusted = true
		case "implementations":
			cur.Implementations = true
		case "pure":
			cur.Pure = true
		case "timeout":
			cur.Timeout, _ = strconv.Atoi(strings.TrimSpace(rc.rest))
		case "uses":
			if curLemma != nil {
				curLemma.Uses = append(curLemma.Uses, strings.Fields(rc.rest)...)
			} else if cur != nil {
				cur.Uses = append(cur.Uses, strings.Fields(rc.rest)...)
			}
		case "trigger":
			if curLemma != nil {
				curLemma.Triggers = append(curLemma.Triggers, rc.rest)
			}
		case "split":
			// split <expr> in lo..hi
			j := strings.LastIndex(rc.rest, " in ")
			if j < 0 || cur == nil {
				return fmt.Errorf("%s:%d: split <expr> in lo..hi", path, rc.line)
			}
			ex := strings.TrimSpace(rc.rest[:j])
			rng := strings.Split(strings.TrimSpace(rc.rest[j+4:]), "..")
			if len(rng) != 2 {
				return fmt.Errorf("%s:%d: split range", path, rc.line)
			}
			lo, _ := strconv.ParseInt(strings.TrimSpace(rng[0]), 10, 64)
			hi, _ := strconv.ParseInt(strings.TrimSpace(rng[1]), 10, 64)
			cur.Splits = append(cur.Splits, &SplitSpec{Text: ex, Expr: sf.mustExpr(ex, path, rc.line), Lo: lo, Hi: hi})
		}
	}
	return nil
}

// splitTop splits on commas outside brackets.
func splitTop(s string) []string {
	var out []string
	depth := 0
	start := 0
	for i := 0; i < len(s); i++ {
		switch s[i] {
		case '(', '[':
			depth++
		case ')', ']':
			depth--
		case ',':
			if depth == 0 {
				out = append(out, strings.TrimSpace(s[start:i]))
				start = i + 1
			}
		}
	}
	if t := strings.TrimSpace(s[start:]); t != "" {
		out = append(out, t)
	}
	return out
}
