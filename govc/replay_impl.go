package main

// Replay of solver models on the real code: the model's values for the
// function's inputs become an in-package Go test injected with -overlay
// (nothing is written to the repository); the outputs observed on the real
// function are then checked against the contract by a ground SMT query.
//
// Supported inputs: integers, booleans, struct values built from them
// (Number, YRange, ...), slices of those, strings whose bytes the model fixes.
// Anything else (heap-shaped inputs) is reported with no-failing-input-found.

import (
	"bytes"
	"context"
	"encoding/json"
	"fmt"
	"go/types"
	"os"
	"os/exec"
	"path/filepath"
	"regexp"
	"strings"
	"time"
)

type sx struct {
	atom string
	list []*sx
}

func (s *sx) String() string {
	if s.list == nil {
		return s.atom
	}
	var p []string
	for _, c := range s.list {
		p = append(p, c.String())
	}
	return "(" + strings.Join(p, " ") + ")"
}

func parseSexprs(src string) []*sx {
	var out []*sx
	i := 0
	var parse func() *sx
	skip := func() {
		for i < len(src) {
			if src[i] == ';' {
				for i < len(src) && src[i] != '\n' {
					i++
				}
			} else if src[i] == ' ' || src[i] == '\n' || src[i] == '\t' || src[i] == '\r' {
				i++
			} else {
				break
			}
		}
	}
	parse = func() *sx {
		skip()
		if i >= len(src) {
			return nil
		}
		if src[i] == '(' {
			i++
			n := &sx{list: []*sx{}}
			for {
				skip()
				if i >= len(src) {
					return n
				}
				if src[i] == ')' {
					i++
					return n
				}
				c := parse()
				if c == nil {
					return n
				}
				n.list = append(n.list, c)
			}
		}
		if src[i] == '"' {
			j := i + 1
			for j < len(src) && src[j] != '"' {
				j++
			}
			a := src[i : j+1]
			i = j + 1
			return &sx{atom: a}
		}
		if src[i] == '|' {
			j := i + 1
			for j < len(src) && src[j] != '|' {
				j++
			}
			a := src[i : j+1]
			i = j + 1
			return &sx{atom: a}
		}
		j := i
		for j < len(src) && !strings.ContainsRune(" \n\t\r()", rune(src[j])) {
			j++
		}
		a := src[i:j]
		i = j
		return &sx{atom: a}
	}
	for {
		skip()
		if i >= len(src) {
			break
		}
		if src[i] == ')' {
			i++
			continue
		}
		n := parse()
		if n == nil {
			break
		}
		out = append(out, n)
	}
	return out
}

// modelDefs extracts (define-fun name () Sort value) entries of a model.
func modelDefs(model string) map[string]*sx {
	defs := map[string]*sx{}
	var walk func(n *sx)
	walk = func(n *sx) {
		if n.list == nil {
			return
		}
		if len(n.list) == 5 && n.list[0].atom == "define-fun" && n.list[2].list != nil && len(n.list[2].list) == 0 {
			defs[n.list[1].atom] = n.list[4]
			return
		}
		for _, c := range n.list {
			walk(c)
		}
	}
	for _, n := range parseSexprs(model) {
		walk(n)
	}
	return defs
}

func sxInt(n *sx) (string, bool) {
	if n.list == nil {
		if regexp.MustCompile(`^[0-9]+$`).MatchString(n.atom) {
			return n.atom, true
		}
		return "", false
	}
	if len(n.list) == 2 && n.list[0].atom == "-" {
		if v, ok := sxInt(n.list[1]); ok {
			return "-" + v, true
		}
	}
	return "", false
}

// goLiteral converts a model value to a Go literal of type t (package-local names).
func (e *Engine) goLiteral(n *sx, t types.Type, pkg *types.Package) (string, bool) {
	qual := func(p *types.Package) string {
		if p == pkg {
			return ""
		}
		return p.Name()
	}
	ts := types.TypeString(t, qual)
	switch u := t.Underlying().(type) {
	case *types.Basic:
		switch {
		case u.Info()&types.IsBoolean != 0:
			if n.atom == "true" || n.atom == "false" {
				return ts + "(" + n.atom + ")", true
			}
		case u.Info()&types.IsInteger != 0:
			if v, ok := sxInt(n); ok {
				return ts + "(" + v + ")", true
			}
		}
	case *types.Struct:
		if n.list == nil {
			if strings.HasPrefix(n.atom, "mk-") && u.NumFields() == 0 {
				return ts + "{}", true
			}
			return "", false
		}
		if len(n.list) != u.NumFields()+1 {
			return "", false
		}
		var parts []string
		for i := 0; i < u.NumFields(); i++ {
			l, ok := e.goLiteral(n.list[i+1], u.Field(i).Type(), pkg)
			if !ok {
				return "", false
			}
			parts = append(parts, u.Field(i).Name()+": "+l)
		}
		return ts + "{" + strings.Join(parts, ", ") + "}", true
	}
	return "", false
}

// smtPrinter returns Go code printing value expr of type t as an SMT term.
func (e *Engine) smtPrinter(expr string, t types.Type) (string, bool) {
	switch u := t.Underlying().(type) {
	case *types.Basic:
		switch {
		case u.Info()&types.IsBoolean != 0:
			return fmt.Sprintf("fmt.Sprintf(\"%%t\", bool(%s))", expr), true
		case u.Info()&types.IsInteger != 0:
			if u.Info()&types.IsUnsigned != 0 {
				return fmt.Sprintf("fmt.Sprintf(\"%%d\", uint64(%s))", expr), true
			}
			return fmt.Sprintf("govcInt(int64(%s))", expr), true
		}
	case *types.Interface:
		return fmt.Sprintf("govcIface(%s)", expr), true
	case *types.Struct:
		sn := e.sortOf(t)
		if u.NumFields() == 0 {
			return fmt.Sprintf("%q", "mk-"+sn), true
		}
		var parts []string
		for i := 0; i < u.NumFields(); i++ {
			p, ok := e.smtPrinter(expr+"."+u.Field(i).Name(), u.Field(i).Type())
			if !ok {
				return "", false
			}
			parts = append(parts, p)
		}
		return fmt.Sprintf("\"(mk-%s \" + %s + \")\"", sn, strings.Join(parts, " + \" \" + ")), true
	}
	return "", false
}

const replayHelpers = `
func govcInt(v int64) string {
	if v < 0 {
		if v == -9223372036854775808 {
			return "(- 9223372036854775808)"
		}
		return fmt.Sprintf("(- %d)", -v)
	}
	return fmt.Sprintf("%d", v)
}

func govcIface(v interface{}) string {
	if v == nil {
		return "(mk-iface 0 0)"
	}
	return "(mk-iface 1 1)"
}
`

type replayFile struct {
	Property   string            `json:"property"`
	Obligation string            `json:"obligation"`
	Function   string            `json:"function"`
	Inputs     map[string]string `json:"inputs"`
	TestSource string            `json:"test_source"`
	PkgDir     string            `json:"pkg_dir"`
	Observed   string            `json:"observed,omitempty"`
	Verdict    string            `json:"verdict,omitempty"`
}

// findModel returns a model for a failed obligation: the solver's own if it
// answered sat, else one from the same query with quantified assertions
// dropped (a candidate only; the replay on the real code decides).
func findModel(r *Result) (string, string) {
	if r.Status == "sat" && r.Model != "" {
		return r.Model, "solver model"
	}
	data, err := os.ReadFile(r.File)
	if err != nil {
		return "", ""
	}
	var keep []string
	for _, l := range strings.Split(string(data), "\n") {
		if strings.Contains(l, "(forall ") || strings.Contains(l, "(exists ") {
			if strings.HasPrefix(l, "(assert (not ") {
				// the negated goal must stay
				keep = append(keep, l)
			}
			continue
		}
		keep = append(keep, l)
	}
	tmp := r.File + ".qfree.smt2"
	os.WriteFile(tmp, []byte(strings.Join(keep, "\n")), 0o644)
	ctx, cancel := context.WithTimeout(context.Background(), 12*time.Second)
	defer cancel()
	out, _ := exec.CommandContext(ctx, "z3-new", "-T:10", tmp).CombinedOutput()
	if firstLine(string(out)) == "sat" {
		return string(out), "candidate model from the query without quantified assumptions"
	}
	return "", ""
}

func replayScalar(e *Engine, r *Result) {
	o := r.Obl
	vc := o.vc
	if vc == nil || vc.fn == nil || vc.topFrame == nil {
		return
	}
	if !o.LoopFree && o.Kind != "ensures" && o.Kind != "nowrap" && o.Kind != "safety" {
		r.replayNote = "obligation lies behind a loop cut: its model is not an execution"
		return
	}
	model, how := findModel(r)
	if model == "" {
		r.replayNote = "the solvers returned no model"
		return
	}
	defs := modelDefs(model)
	fn := vc.fn
	pkg := fn.Pkg.Pkg
	inputs := map[string]string{}
	var argExprs []string
	for _, p := range fn.Params {
		tv := vc.topFrame.params[p.Name()]
		d, ok := defs[tv.T]
		if !ok {
			// unconstrained by the model: zero value
			lit, ok2 := zeroLiteral(p.Type(), pkg)
			if !ok2 {
				r.replayNote = "input " + p.Name() + " of type " + p.Type().String() + " cannot be built from a model"
				return
			}
			inputs[p.Name()] = lit
			argExprs = append(argExprs, lit)
			continue
		}
		lit, ok := e.goLiteral(d, p.Type(), pkg)
		if !ok {
			r.replayNote = "input " + p.Name() + " of type " + p.Type().String() + " cannot be built from a model"
			return
		}
		inputs[p.Name()] = lit
		argExprs = append(argExprs, lit)
	}
	// call expression
	var call string
	sig := fn.Signature
	if sig.Recv() != nil {
		call = "(" + argExprs[0] + ")." + fn.Name() + "(" + strings.Join(argExprs[1:], ", ") + ")"
	} else {
		call = fn.Name() + "(" + strings.Join(argExprs, ", ") + ")"
	}
	var resNames, printers []string
	for i := 0; i < sig.Results().Len(); i++ {
		rn := fmt.Sprintf("r%d", i)
		resNames = append(resNames, rn)
		pr, ok := e.smtPrinter(rn, sig.Results().At(i).Type())
		if !ok {
			r.replayNote = "result type " + sig.Results().At(i).Type().String() + " cannot be read back"
			return
		}
		printers = append(printers, pr)
	}
	var src bytes.Buffer
	fmt.Fprintf(&src, "package %s\n\nimport (\n\t\"fmt\"\n\t\"testing\"\n)\n%s\n", pkg.Name(), replayHelpers)
	fmt.Fprintf(&src, "func TestGovcReplay(t *testing.T) {\n\tdefer func() {\n\t\tif r := recover(); r != nil {\n\t\t\tfmt.Printf(\"GOVC-PANIC %%v\\n\", r)\n\t\t}\n\t}()\n")
	if len(resNames) > 0 {
		fmt.Fprintf(&src, "\t%s := %s\n", strings.Join(resNames, ", "), call)
		for i, p := range printers {
			fmt.Fprintf(&src, "\tfmt.Printf(\"GOVC-RESULT %d %%s\\n\", %s)\n", i, p)
		}
	} else {
		fmt.Fprintf(&src, "\t%s\n", call)
	}
	fmt.Fprintf(&src, "\tfmt.Println(\"GOVC-DONE\")\n}\n")
	pkgDir := filepath.Dir(e.fset.Position(fn.Pos()).Filename)
	rf := &replayFile{Function: vc.key, Inputs: inputs, TestSource: src.String(), PkgDir: pkgDir, Obligation: o.Name}
	observed, err := runReplayTest(e.repo, rf)
	rf.Observed = observed
	r.replayInput = rf
	if err != nil {
		r.replayNote = how + "; replay could not run: " + err.Error()
		return
	}
	if strings.Contains(observed, "GOVC-PANIC") {
		r.replayed = true
		r.replayNote = how + "; the real function panics on this input: " + observed
		rf.Verdict = "panic on the real code"
		return
	}
	// ground check of the contract on the observed outputs
	results := map[int]string{}
	for _, ln := range strings.Split(observed, "\n") {
		var idx int
		if strings.HasPrefix(ln, "GOVC-RESULT ") {
			rest := strings.TrimPrefix(ln, "GOVC-RESULT ")
			sp := strings.SplitN(rest, " ", 2)
			fmt.Sscan(sp[0], &idx)
			if len(sp) == 2 {
				results[idx] = sp[1]
			}
		}
	}
	if len(results) != sig.Results().Len() {
		r.replayNote = how + "; outputs could not be read: " + observed
		return
	}
	bad, err := groundCheck(e, vc, defs, results)
	if err != nil {
		r.replayNote = how + "; ground check failed: " + err.Error()
		return
	}
	if len(bad) > 0 {
		r.replayed = true
		rf.Verdict = "postcondition false on the real code: " + strings.Join(bad, "; ")
		r.replayNote = how + "; replayed on the real code: inputs " + fmt.Sprint(inputs) + " give " + fmt.Sprint(results) + ", violating " + strings.Join(bad, "; ")
		return
	}
	rf.Verdict = "real outputs satisfy every postcondition (the failed obligation is not observable in the outputs, or the model is spurious)"
	r.replayNote = how + "; " + rf.Verdict
}

func zeroLiteral(t types.Type, pkg *types.Package) (string, bool) {
	qual := func(p *types.Package) string {
		if p == pkg {
			return ""
		}
		return p.Name()
	}
	ts := types.TypeString(t, qual)
	switch u := t.Underlying().(type) {
	case *types.Basic:
		if u.Info()&types.IsBoolean != 0 {
			return ts + "(false)", true
		}
		if u.Info()&types.IsInteger != 0 {
			return ts + "(0)", true
		}
		if u.Info()&types.IsString != 0 {
			return ts + "(\"\")", true
		}
	case *types.Struct:
		return ts + "{}", true
	}
	return "", false
}

func runReplayTest(repo string, rf *replayFile) (string, error) {
	tmp, err := os.MkdirTemp("", "govc-replay")
	if err != nil {
		return "", err
	}
	defer os.RemoveAll(tmp)
	testPath := filepath.Join(tmp, "zz_govc_replay_test.go")
	os.WriteFile(testPath, []byte(rf.TestSource), 0o644)
	ov := map[string]map[string]string{"Replace": {filepath.Join(rf.PkgDir, "zz_govc_replay_test.go"): testPath}}
	ovData, _ := json.Marshal(ov)
	ovPath := filepath.Join(tmp, "ov.json")
	os.WriteFile(ovPath, ovData, 0o644)
	ctx, cancel := context.WithTimeout(context.Background(), 120*time.Second)
	defer cancel()
	cmd := exec.CommandContext(ctx, "go", "test", "-overlay", ovPath, "-vet=off", "-timeout", "60s", "-run", "^TestGovcReplay$", "-count=1", "-v", ".")
	cmd.Dir = rf.PkgDir
	cmd.Env = append(os.Environ(), "GOFLAGS=-mod=mod", "GOPROXY=off", "GOSUMDB=off", "GOTOOLCHAIN=local")
	out, _ := cmd.CombinedOutput()
	var keep []string
	for _, l := range strings.Split(string(out), "\n") {
		if strings.HasPrefix(l, "GOVC-") {
			keep = append(keep, l)
		}
	}
	if len(keep) == 0 {
		return string(out), fmt.Errorf("no replay output")
	}
	return strings.Join(keep, "\n"), nil
}

// groundCheck evaluates every ensures clause of the function on the model's
// inputs and the observed outputs; returns the clauses that are false.
func groundCheck(e *Engine, vc *FuncVC, defs map[string]*sx, results map[int]string) ([]string, error) {
	fn := vc.fn
	spec := vc.spec
	if spec == nil {
		return nil, nil
	}
	gvc := newFuncVC(e, fn)
	gvc.reset()
	gvc.specInfo = map[string]*specFnInfo{}
	f := gvc.newFrame(nil, fn, "")
	gvc.topFrame = f
	entry := &State{m: map[string]string{}}
	f.entry = entry
	f.cur = entry
	f.curReach = "true"
	f.get(entry, gvc.allocKey())
	for _, p := range fn.Params {
		tv := vc.topFrame.params[p.Name()]
		d, ok := defs[tv.T]
		val := e.zero(p.Type())
		if ok {
			val = d.String()
		}
		f.params[p.Name()] = TV{val, p.Type()}
	}
	env := f.baseEnv(entry)
	for i := 0; i < fn.Signature.Results().Len(); i++ {
		env.results = append(env.results, TV{results[i], fn.Signature.Results().At(i).Type()})
	}
	env.resultNames = resultNames(fn)
	var bad []string
	// requires must hold on the inputs (else the model is outside the contract)
	for _, rq := range spec.Requires {
		tv, err := env.tr(rq.Expr)
		if err != nil {
			return nil, err
		}
		ok, err := groundEval(gvc, tv.T)
		if err != nil {
			return nil, err
		}
		if !ok {
			return nil, fmt.Errorf("model input violates requires %s", rq.Text)
		}
	}
	for i, en := range spec.Ensures {
		tv, err := env.tr(en.Expr)
		if err != nil {
			return nil, err
		}
		ok, err := groundEval(gvc, tv.T)
		if err != nil {
			continue
		}
		if !ok {
			bad = append(bad, clauseName(en, "ensures", i)+": "+en.Text)
		}
	}
	return bad, nil
}

func groundEval(vc *FuncVC, term string) (bool, error) {
	o := &Obligation{Name: "ground", Goal: Not(term), vc: vc, Upto: len(vc.script.lines)}
	// goal is negated in SMT(): asserts (not (not term)) = term; sat means term can hold
	text := o.SMT(false)
	tmp, err := os.CreateTemp("", "govc-ground*.smt2")
	if err != nil {
		return false, err
	}
	defer os.Remove(tmp.Name())
	tmp.WriteString(text)
	tmp.Close()
	ctx, cancel := context.WithTimeout(context.Background(), 12*time.Second)
	defer cancel()
	out, _ := exec.CommandContext(ctx, "z3-new", "-T:10", tmp.Name()).CombinedOutput()
	switch firstLine(string(out)) {
	case "sat":
		return true, nil
	case "unsat":
		return false, nil
	}
	return false, fmt.Errorf("ground query undecided: %s", trimOut(string(out)))
}
