package main

func replayScalar(e *Engine, r *Result) {}
