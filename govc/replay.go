package main

// Replay of solver models on the real code (see DESIGN.md section 5).

func tryReplay(e *Engine, r *Result) {
	o := r.Obl
	if o.vc == nil || o.vc.fn == nil {
		return
	}
	replayScalar(e, r)
	if r.replayed {
		return
	}
	// A failed wrap-freedom or run-time-check obligation is not itself
	// observable. Look for an input on which the wrap changes an output: the
	// same function with wrap-around modelled exactly and its postconditions
	// as goals.
	if o.Kind == "nowrap" || o.Kind == "safety" {
		vc2 := newFuncVC(e, o.vc.fn)
		vc2.forceWrap = true
		vc2.generate()
		vc2.finish()
		for _, o2 := range vc2.obls {
			if o2.Kind != "ensures" || o2.Probe {
				continue
			}
			r2 := solve(o2, o.vc.workDir()+"/wrapsearch", 10, false)
			if r2.Status != "sat" {
				continue
			}
			replayScalar(e, r2)
			if r2.replayed {
				r.replayed = true
				r.replayNote = "input found by re-checking the postconditions with wrap-around modelled exactly (" + o2.Name + "): " + r2.replayNote
				r.replayInput = r2.replayInput
				return
			}
		}
	}
}
