package main

// Replay of solver models on the real code (see DESIGN.md section 5).

func tryReplay(e *Engine, r *Result) {
	// filled in by replay_impl.go for scalar inputs
	replayScalar(e, r)
}
