package main

// Engine: loads /repo's current working tree, builds go/ssa, indexes functions
// and contracts.

import (
	"fmt"
	"go/token"
	"go/types"
	"os"
	"path/filepath"
	"sort"
	"strings"

	"golang.org/x/tools/go/packages"
	"golang.org/x/tools/go/ssa"
	"golang.org/x/tools/go/ssa/ssautil"
)

type Engine struct {
	repo            string
	fset            *token.FileSet
	prog            *ssa.Program
	closureAlias    map[string][]string // go/ssa name of a closure -> parent$variable names
	pkgs            []*packages.Package
	spkgs           []*ssa.Package
	target          map[*types.Package]bool
	pkgByNm         map[string]*types.Package
	sorts           *Sorts
	strLits         map[string]string
	strOrder        []string
	spec            *SpecFile
	fnByName        map[string]*ssa.Function
	keySort         map[string]string
	keyKinds        map[string]keyKind
	guards          map[string]string // structSort.field -> mutex field
	guardWritesOnly map[string]bool
	mapKeySort      map[string]string
	mapZero         map[string]string
	typeTags        map[string]int
	tagType         map[int]types.Type
	specFns         map[string]*SpecFn
	lemmas          map[string]*Lemma
	specFiles       []string
	notes           []string
}

func (e *Engine) isTargetPkg(p *types.Package) bool { return e.target[p] }

func fnKey(fn *ssa.Function) string {
	if fn.Pkg == nil {
		// synthetic wrappers, instantiations
		if fn.Object() != nil && fn.Object().Pkg() != nil {
			return fn.Object().Pkg().Name() + "." + fn.RelString(fn.Object().Pkg())
		}
		return fn.String()
	}
	return fn.Pkg.Pkg.Name() + "." + fn.RelString(fn.Pkg.Pkg)
}

func NewEngine(repo string, patterns []string, specPaths []string) (*Engine, error) {
	e := &Engine{repo: repo, sorts: newSorts(), strLits: map[string]string{}, fnByName: map[string]*ssa.Function{},
		keySort: map[string]string{}, keyKinds: map[string]keyKind{}, mapKeySort: map[string]string{}, mapZero: map[string]string{}, typeTags: map[string]int{}, tagType: map[int]types.Type{}, target: map[*types.Package]bool{},
		pkgByNm: map[string]*types.Package{}, specFns: map[string]*SpecFn{}, lemmas: map[string]*Lemma{}}
	e.fset = token.NewFileSet()
	cfg := &packages.Config{Mode: packages.LoadAllSyntax, Dir: repo, BuildFlags: []string{"-tags=verif"}, Fset: e.fset,
		Env: append(os.Environ(), "GOFLAGS=-mod=mod", "GOPROXY=off", "GOSUMDB=off", "GOTOOLCHAIN=local")}
	pkgs, err := packages.Load(cfg, patterns...)
	if err != nil {
		return nil, err
	}
	nerr := 0
	packages.Visit(pkgs, nil, func(p *packages.Package) {
		for _, er := range p.Errors {
			if e.isRepoPath(p.PkgPath) || len(p.GoFiles) > 0 && strings.HasPrefix(p.GoFiles[0], repo) {
				fmt.Fprintf(os.Stderr, "load error: %v\n", er)
				nerr++
			}
		}
	})
	if nerr > 0 {
		return nil, fmt.Errorf("%d package load errors (the tree does not compile)", nerr)
	}
	e.pkgs = pkgs
	prog, spkgs := ssautil.AllPackages(pkgs, ssa.GlobalDebug|ssa.BareInits)
	prog.Build()
	e.prog = prog
	e.spkgs = spkgs
	for _, p := range pkgs {
		e.target[p.Types] = true
	}
	for _, sp := range prog.AllPackages() {
		e.pkgByNm[sp.Pkg.Name()] = sp.Pkg
	}
	for fn := range ssautil.AllFunctions(prog) {
		if fn.Blocks == nil && fn.Pkg == nil {
			continue
		}
		if fn.Synthetic != "" && !strings.Contains(fn.Name(), "$") && fn.Synthetic != "package initializer" {
			continue
		}
		k := fnKey(fn)
		if old, ok := e.fnByName[k]; ok && old != fn {
			// prefer target packages
			if old.Pkg != nil && e.target[old.Pkg.Pkg] {
				continue
			}
		}
		e.fnByName[k] = fn
	}
	// contracts
	e.spec = newSpecFile()
	for _, sp := range specPaths {
		parts := strings.SplitN(sp, "=", 2)
		if len(parts) != 2 {
			return nil, fmt.Errorf("spec path must be pkgname=file: %s", sp)
		}
		if _, err := os.Stat(parts[1]); err != nil {
			continue
		}
		if err := e.spec.Load(parts[1], parts[0]); err != nil {
			return nil, err
		}
		e.specFiles = append(e.specFiles, parts[1])
	}
	// A closure may be named by the variable it is assigned to
	// (parent$set instead of parent$2): ordinals shift when an unrelated
	// closure is added to the function, variable names do not.
	alias := map[string]string{}
	for k, fn := range e.fnByName {
		for _, b := range fn.Blocks {
			for _, in := range b.Instrs {
				d, ok := in.(*ssa.DebugRef)
				if !ok || d.IsAddr || d.Object() == nil {
					continue
				}
				switch x := d.X.(type) {
				case *ssa.MakeClosure:
					if cf, ok := x.Fn.(*ssa.Function); ok {
						alias[k+"$"+d.Object().Name()] = fnKey(cf)
					}
				case *ssa.Function:
					// a function literal that captures nothing
					if x.Parent() == fn {
						alias[k+"$"+d.Object().Name()] = fnKey(x)
					}
				}
			}
		}
	}
	e.closureAlias = map[string][]string{}
	for ak, ck := range alias {
		e.closureAlias[ck] = append(e.closureAlias[ck], ak)
	}
	for ak, ck := range alias {
		if fs, ok := e.spec.Funcs[ak]; ok {
			if _, clash := e.spec.Funcs[ck]; clash {
				return nil, fmt.Errorf("contracts for both %s and %s (the same closure)", ak, ck)
			}
			delete(e.spec.Funcs, ak)
			e.spec.Funcs[ck] = fs
			for i, o := range e.spec.Order {
				if o == ak {
					e.spec.Order[i] = ck
				}
			}
		}
	}
	for _, s := range e.spec.Specs {
		if _, dup := e.specFns[s.Name]; dup {
			return nil, fmt.Errorf("%s:%d: duplicate spec function %s", s.File, s.Line, s.Name)
		}
		e.specFns[s.Name] = s
	}
	for _, l := range e.spec.Lemmas {
		e.lemmas[l.Name] = l
	}
	e.guards = map[string]string{}
	e.guardWritesOnly = map[string]bool{}
	for _, g := range e.spec.Guards {
		i := strings.Index(g.Field, ".")
		if i < 0 {
			return nil, fmt.Errorf("guarded_by %s: want Type.field", g.Field)
		}
		ty, err := e.evalType(g.Pkg, g.Field[:i])
		if err != nil {
			return nil, err
		}
		e.guards[e.sortOf(ty)+"."+g.Field[i+1:]] = g.Mutex
		if g.WritesOnly {
			e.guardWritesOnly[e.sortOf(ty)+"."+g.Field[i+1:]] = true
		}
	}
	for _, n := range e.spec.OpaqueNames {
		if s := e.specFns[n]; s != nil {
			s.Opaque = true
		} else {
			return nil, fmt.Errorf("opaque %s: no such spec function", n)
		}
	}
	// every contract must name an existing function
	var missing []string
	for k, fs := range e.spec.Funcs {
		if _, ok := e.fnByName[k]; !ok {
			missing = append(missing, fmt.Sprintf("%s:%d: %s", filepath.Base(fs.File), fs.Line, k))
		}
	}
	sort.Strings(missing)
	if len(missing) > 0 {
		e.notes = append(e.notes, "contracts naming no function in the tree: "+strings.Join(missing, "; "))
	}
	return e, nil
}

func (e *Engine) isRepoPath(p string) bool {
	return strings.HasPrefix(p, "github.com/openconfig/goyang")
}

// missingContractTargets returns contracts whose function no longer exists.
func (e *Engine) missingContractTargets() []string {
	var missing []string
	for k, fs := range e.spec.Funcs {
		if _, ok := e.fnByName[k]; !ok && !fs.Trusted && !fs.Implementations {
			missing = append(missing, k)
		}
	}
	sort.Strings(missing)
	return missing
}

// evalType resolves a Go type expression in the scope of package pkg.
func (e *Engine) evalType(pkg string, text string) (types.Type, error) {
	text = strings.TrimSpace(text)
	switch text {
	case "int", "":
		return types.Typ[types.Int], nil
	case "bool":
		return types.Typ[types.Bool], nil
	case "string":
		return types.Typ[types.String], nil
	}
	if strings.HasPrefix(text, "array[") && strings.HasSuffix(text, "]") {
		// spec-only type: the contents of a backing array, an SMT array Int -> T
		et, err := e.evalType(pkg, text[6:len(text)-1])
		if err != nil {
			return nil, err
		}
		return types.NewArray(et, 0), nil
	}
	tp := e.pkgByNm[pkg]
	var tv types.TypeAndValue
	var err error
	if tp != nil {
		tv, err = types.Eval(e.fset, tp, token.NoPos, text)
	}
	if tp == nil || err != nil {
		// an assumed contract on a dependency (package io, say) may name a type of
		// the packages under contract: look there, in a fixed order
		var names []string
		for n := range e.pkgByNm {
			names = append(names, n)
		}
		sort.Strings(names)
		found := false
		for _, n := range names {
			if tv2, err2 := types.Eval(e.fset, e.pkgByNm[n], token.NoPos, text); err2 == nil && tv2.IsType() {
				tv, err, found = tv2, nil, true
				break
			}
		}
		if !found {
			if tp == nil {
				return nil, fmt.Errorf("unknown package %s", pkg)
			}
			return nil, fmt.Errorf("type %q in %s: %v", text, pkg, err)
		}
	}
	if !tv.IsType() {
		return nil, fmt.Errorf("%q is not a type", text)
	}
	return tv.Type, nil
}

func (e *Engine) typeTag(t types.Type) int {
	k := types.TypeString(t, nil)
	if n, ok := e.typeTags[k]; ok {
		return n
	}
	n := len(e.typeTags) + 1
	e.typeTags[k] = n
	e.tagType[n] = t
	return n
}

func (e *Engine) pos(p token.Pos) string {
	if !p.IsValid() {
		return ""
	}
	ps := e.fset.Position(p)
	rel, err := filepath.Rel(e.repo, ps.Filename)
	if err != nil {
		rel = ps.Filename
	}
	return fmt.Sprintf("%s:%d", rel, ps.Line)
}

type implInfo struct {
	fn    *ssa.Function
	recv  types.Type
	iface types.Type
}

// implementations lists the methods implementing the interface method named by
// key "pkg.(Iface).Method" in the packages under verification.
func (e *Engine) implementations(key string) []implInfo {
	i := strings.Index(key, ".(")
	j := strings.Index(key, ").")
	if i < 0 || j < 0 {
		return nil
	}
	pkgName, ifName, mName := key[:i], key[i+2:j], key[j+2:]
	tp := e.pkgByNm[pkgName]
	if tp == nil {
		return nil
	}
	obj, _ := tp.Scope().Lookup(ifName).(*types.TypeName)
	if obj == nil {
		return nil
	}
	it, ok := obj.Type().Underlying().(*types.Interface)
	if !ok {
		return nil
	}
	var out []implInfo
	for p := range e.target {
		sc := p.Scope()
		names := sc.Names()
		sort.Strings(names)
		for _, n := range names {
			tn, ok := sc.Lookup(n).(*types.TypeName)
			if !ok || tn.IsAlias() {
				continue
			}
			if _, isI := tn.Type().Underlying().(*types.Interface); isI {
				continue
			}
			for _, T := range []types.Type{tn.Type(), types.NewPointer(tn.Type())} {
				if !types.Implements(T, it) {
					continue
				}
				sel := e.prog.MethodSets.MethodSet(T).Lookup(tp, mName)
				if sel == nil {
					sel = e.prog.MethodSets.MethodSet(T).Lookup(p, mName)
				}
				if sel == nil {
					continue
				}
				fn := e.prog.MethodValue(sel)
				if fn != nil && fn.Pkg == nil {
					// promoted / pointer-receiver wrapper: verify the declared method
					if fo, ok := sel.Obj().(*types.Func); ok {
						fn = e.prog.FuncValue(fo)
					}
				}
				if fn == nil || fn.Blocks == nil || fn.Pkg == nil {
					continue
				}
				out = append(out, implInfo{fn, T, obj.Type()})
				break
			}
		}
	}
	return out
}
