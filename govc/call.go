package main

import (
	"fmt"
	"go/token"
	"go/types"
	"sort"
	"strings"

	"golang.org/x/tools/go/ssa"
)

// call handles Call and Defer instructions. res is nil for defers / go.
// call executes a call instruction; assertions anchored at this call site
// (before / after clauses of the function under verification) become
// obligations in the caller's context.
func (f *Frame) call(in ssa.CallInstruction, res *ssa.Call) {
	c := in.Common()
	var mine []*CallAssert
	if f.parent == nil && f.spec != nil && len(f.spec.CallAsserts) > 0 {
		if _, isB := c.Value.(*ssa.Builtin); !isB {
			name := shortCallee(c)
			short := name
			if i := strings.Index(name, "."); i >= 0 {
				short = name[i+1:]
			}
			f.ncall["@site:"+name]++
			n := f.ncall["@site:"+name]
			names := map[string]bool{name: true, short: true}
			for _, ak := range f.vc.eng.closureAlias[name] {
				names[ak] = true
				if i := strings.Index(ak, "."); i >= 0 {
					names[ak[i+1:]] = true
				}
			}
			for _, ca := range f.spec.CallAsserts {
				if names[ca.Callee] && ca.N == n {
					mine = append(mine, ca)
					f.vc.matchedAsserts[ca] = true
				}
			}
		}
	}
	idx := -1
	if len(mine) > 0 {
		for i, x := range in.Block().Instrs {
			if x == in.(ssa.Instruction) {
				idx = i
			}
		}
	}
	emit := func(after bool) {
		for _, ca := range mine {
			if ca.After != after {
				continue
			}
			env := f.baseEnv(f.cur)
			cur := f.cur
			blk := in.Block()
			env.lookup = func(name string) (TV, bool) { return f.lookupVarFromIdx(name, blk, idx, cur) }
			var argVals []ssa.Value
			if c.IsInvoke() {
				argVals = append(argVals, c.Value)
			}
			argVals = append(argVals, c.Args...)
			for i, a := range argVals {
				if _, isLV := f.lvals[a]; isLV {
					continue
				}
				env = env.with(fmt.Sprintf("arg%d", i), TV{f.val(a), a.Type()})
			}
			if after && res != nil {
				if tup, ok := f.tuples[res]; ok {
					tt := res.Type().(*types.Tuple)
					for i := 0; i < tt.Len() && i < len(tup); i++ {
						env = env.with(fmt.Sprintf("ret%d", i), TV{tup[i], tt.At(i).Type()})
					}
				} else if t, ok := f.vals[res]; ok {
					env = env.with("ret0", TV{t, res.Type()})
				}
			}
			tv, err := env.tr(ca.C.Expr)
			if err != nil {
				f.vc.errorf("%s:%d: %v", ca.C.File, ca.C.Line, err)
				continue
			}
			kind := "before"
			if after {
				kind = "after"
			}
			nm := ca.C.Name
			if nm == "" {
				nm = fmt.Sprintf("l%d", ca.C.Line)
			}
			f.oblige("call-assert", fmt.Sprintf("%s:%s#%d/%s", kind, ca.Callee, ca.N, nm), tv.T, ca.C.Text, in.Pos())
		}
	}
	emit(false)
	f.callInner(in, res)
	// ghost counters calls("<callee>"): a direct call of the named function
	// makes the counter grow strictly (whatever the callee does besides)
	if _, isB := c.Value.(*ssa.Builtin); !isB {
		name := shortCallee(c)
		short := name
		if i := strings.Index(name, "."); i >= 0 {
			short = name[i+1:]
		}
		for _, gk := range f.vc.ghostKeys() {
			if !strings.HasPrefix(gk, "ghost:calls:") {
				continue
			}
			want := strings.TrimPrefix(gk, "ghost:calls:")
			hit := want == name || want == short
			for _, ak := range f.vc.eng.closureAlias[name] {
				if want == ak || (strings.Index(ak, ".") >= 0 && want == ak[strings.Index(ak, ".")+1:]) {
					hit = true
				}
			}
			if hit {
				c1 := f.get(f.cur, gk)
				c2 := f.vc.fresh(gk+"@counted", "Int")
				f.vc.assume(S("<", c1, c2))
				f.set(f.cur, gk, c2)
				f.vc.countedCalls[want] = true
			}
		}
	}
	emit(true)
}

func (f *Frame) callInner(in ssa.CallInstruction, res *ssa.Call) {
	vc := f.vc
	c := in.Common()
	var args []string
	var argVals []ssa.Value
	if c.IsInvoke() {
		argVals = append(argVals, c.Value)
	}
	argVals = append(argVals, c.Args...)

	setResult := func(terms []string) {
		if res == nil {
			return
		}
		if tt, ok := res.Type().(*types.Tuple); ok {
			_ = tt
			f.tuples[res] = terms
			return
		}
		if len(terms) == 1 {
			f.vals[res] = terms[0]
		}
	}

	if b, ok := c.Value.(*ssa.Builtin); ok {
		f.builtin(b, c, res, in.Pos())
		return
	}

	if f.syncCall(c, in.Pos()) {
		return
	}

	for _, a := range argVals {
		if _, isLV := f.lvals[a]; isLV {
			// address of a local or field passed out: everything reachable may change
			args = append(args, f.unknownValue(a, "address passed to call: "+shortCallee(c)))
			continue
		}
		args = append(args, f.val(a))
	}
	escapes := false
	for _, a := range argVals {
		if _, isLV := f.lvals[a]; isLV {
			escapes = true
		}
	}

	if c.IsInvoke() && !escapes {
		if nt, ok := c.Value.Type().(*types.Named); ok && nt.Obj().Pkg() != nil {
			key := nt.Obj().Pkg().Name() + ".(" + nt.Obj().Name() + ")." + c.Method.Name()
			if spec := vc.eng.spec.Funcs[key]; spec != nil {
				sig := c.Method.Type().(*types.Signature)
				cs := calleeSig{key: key, pkg: nt.Obj().Pkg().Name(), name: c.Method.Name(), results: sig.Results()}
				cs.names = append(cs.names, "recv")
				cs.types = append(cs.types, c.Value.Type())
				for i := 0; i < sig.Params().Len(); i++ {
					n := sig.Params().At(i).Name()
					if n == "" {
						n = fmt.Sprintf("arg%d", i)
					}
					cs.names = append(cs.names, n)
					cs.types = append(cs.types, sig.Params().At(i).Type())
				}
				f.safety(f.nameCount("nil:invoke "+nt.Obj().Name()+"."+c.Method.Name()), Not(S("=", S("i-tag", args[0]), "0")), "method call on nil interface", in.Pos())
				f.callBySig(cs, spec, args, res, setResult, in.Pos())
				return
			}
		}
	}
	callee := c.StaticCallee()
	if !c.IsInvoke() {
		// direct call of a closure created in this function
		if mc, ok := c.Value.(*ssa.MakeClosure); ok {
			callee = mc.Fn.(*ssa.Function)
			var bind []string
			for _, b := range mc.Bindings {
				if _, isLV := f.lvals[b]; isLV {
					bind = append(bind, f.unknownValue(b, "local captured by closure"))
				} else {
					bind = append(bind, f.val(b))
				}
			}
			args = append(args, bind...) // free vars after params
		}
	}
	if callee != nil && !escapes {
		key := fnKey(callee)
		spec := vc.eng.spec.Funcs[key]
		if spec != nil && !spec.Inline {
			f.callByContract(callee, spec, args, res, setResult, in.Pos())
			return
		}
		if f.canInline(callee, spec) {
			f.inlineCall(callee, args, res, setResult)
			return
		}
	}
	// unknown call
	name := shortCallee(c)
	vc.unknownCalls[name] = true
	if c.IsInvoke() && len(args) > 0 {
		// a method call on a nil interface value panics, whatever the method
		if _, isLV := f.lvals[c.Value]; !isLV {
			f.safety(f.nameCount("nil:invoke "+typeShort(c.Value.Type())+"."+c.Method.Name()), Not(S("=", S("i-tag", args[0]), "0")), "method call on nil interface", in.Pos())
		}
	}
	dynBefore := ""
	if !c.IsInvoke() && c.StaticCallee() == nil {
		if _, isMC := c.Value.(*ssa.MakeClosure); !isMC {
			dynBefore = f.get(f.cur, vc.dynKey()) // a call through a function value
		}
	}
	f.havocAll(f.cur, name)
	if dynBefore != "" {
		vc.assume(Imp(f.curReach, S("<", dynBefore, f.get(f.cur, vc.dynKey()))))
	}
	if res != nil {
		if tt, ok := res.Type().(*types.Tuple); ok {
			var ts []string
			for i := 0; i < tt.Len(); i++ {
				t := vc.fresh(f.id+res.Name()+"_"+fmt.Sprint(i), vc.eng.sortOf(tt.At(i).Type()))
				f.assumeTypeInv(t, tt.At(i).Type())
				ts = append(ts, t)
			}
			f.tuples[res] = ts
		} else {
			t := vc.fresh(f.id+res.Name(), vc.eng.sortOf(res.Type()))
			f.assumeTypeInv(t, res.Type())
			f.vals[res] = t
		}
	}
}

func shortCallee(c *ssa.CallCommon) string {
	if c.IsInvoke() {
		return "invoke " + typeShort(c.Value.Type()) + "." + c.Method.Name()
	}
	if sc := c.StaticCallee(); sc != nil {
		return fnKey(sc)
	}
	return "dynamic call " + c.Value.Name() + " : " + typeShort(c.Value.Type())
}

func (f *Frame) canInline(callee *ssa.Function, spec *FuncSpec) bool {
	if callee.Blocks == nil {
		return false
	}
	if f.depth >= maxInlineDepth {
		return false
	}
	for fr := f; fr != nil; fr = fr.parent {
		if fr.fn == callee {
			return false
		}
	}
	if spec != nil && spec.Inline {
		return true
	}
	// automatic: small, loop-free functions of the packages under verification
	if callee.Pkg == nil || !f.vc.eng.target[callee.Pkg.Pkg] {
		return false
	}
	n := 0
	for _, b := range callee.Blocks {
		n += len(b.Instrs)
		for _, s := range b.Succs {
			if s.Dominates(b) {
				return false
			}
		}
		for _, in := range b.Instrs {
			switch in.(type) {
			case *ssa.Defer, *ssa.Go, *ssa.Select, *ssa.Send:
				return false
			}
		}
	}
	return n <= 60 && len(callee.Blocks) <= 12
}

func (f *Frame) inlineCall(callee *ssa.Function, args []string, res *ssa.Call, setResult func([]string)) {
	vc := f.vc
	f.callIdx++
	id := fmt.Sprintf("%s%s%d.", f.id, sym(callee.Name()), f.callIdx)
	vc.inlined[fnKey(callee)] = true
	sub := vc.newFrame(f, callee, id)
	nparams := len(callee.Params)
	for i, fv := range callee.FreeVars {
		if nparams+i < len(args) {
			sub.vals[fv] = args[nparams+i]
		}
	}
	sub.run(args[:nparams], f.curReach, f.cur)
	// merge returns
	if len(sub.rets) == 0 {
		// never returns (panics): the rest of this path is unreachable
		vc.assume(Not(f.curReach))
		return
	}
	var conds []string
	for _, r := range sub.rets {
		conds = append(conds, r.reach)
	}
	nres := len(sub.rets[0].results)
	var terms []string
	for i := 0; i < nres; i++ {
		var t string
		for j := len(sub.rets) - 1; j >= 0; j-- {
			if j == len(sub.rets)-1 {
				t = sub.rets[j].results[i]
			} else {
				t = Ite(sub.rets[j].reach, sub.rets[j].results[i], t)
			}
		}
		var rt types.Type
		if nres == 1 {
			rt = callee.Signature.Results().At(0).Type()
		} else {
			rt = callee.Signature.Results().At(i).Type()
		}
		terms = append(terms, vc.define(id+"ret", vc.eng.sortOf(rt), t))
	}
	// state merge
	keys := map[string]bool{}
	for _, r := range sub.rets {
		for k := range r.state.m {
			keys[k] = true
		}
	}
	var ks []string
	for k := range keys {
		ks = append(ks, k)
	}
	sort.Strings(ks)
	ns := &State{m: map[string]string{}}
	for _, k := range ks {
		if strings.HasPrefix(k, "L:"+f.fnTag()+id) || strings.HasPrefix(k, "it:"+f.fnTag()+id) {
			continue
		}
		var t string
		for j := len(sub.rets) - 1; j >= 0; j-- {
			v := f.get(sub.rets[j].state, k)
			if j == len(sub.rets)-1 {
				t = v
			} else {
				t = Ite(sub.rets[j].reach, v, t)
			}
		}
		if strings.ContainsAny(t, " (") {
			t = vc.defineMerged(k+"@ret", vc.eng.keySort[k], t)
		}
		ns.m[k] = t
	}
	// carry keys of the caller untouched by the callee
	for k, v := range f.cur.m {
		if _, ok := ns.m[k]; !ok {
			ns.m[k] = v
		}
	}
	// paths of the callee that panic do not return
	retReach := Or(conds...)
	vc.assume(Imp(f.curReach, retReach))
	f.cur = ns
	// writes performed by the callee count as writes of the enclosing loops
	for k := range keys {
		if !strings.HasPrefix(k, "L:"+f.fnTag()+id) && !strings.HasPrefix(k, "it:"+f.fnTag()+id) {
			if f.get(ns, k) != f.get(sub.entry, k) {
				f.set(ns, k, ns.m[k])
			}
		}
	}
	setResult(terms)
}

// calleeSig describes what a contract call needs to know about the callee.
type calleeSig struct {
	key     string
	pkg     string
	name    string
	names   []string
	types   []types.Type
	results *types.Tuple
	fn      *ssa.Function // nil for interface methods
}

func sigOfFunc(callee *ssa.Function) calleeSig {
	cs := calleeSig{key: fnKey(callee), pkg: callee.Pkg.Pkg.Name(), name: callee.Name(), results: callee.Signature.Results(), fn: callee}
	for _, p := range callee.Params {
		cs.names = append(cs.names, p.Name())
		cs.types = append(cs.types, p.Type())
	}
	return cs
}

// callByContract: requires are obligations, ensures and frame are all that is known.
func (f *Frame) callByContract(callee *ssa.Function, spec *FuncSpec, args []string, res *ssa.Call, setResult func([]string), pos token.Pos) {
	f.callBySig(sigOfFunc(callee), spec, args, res, setResult, pos)
}

func (f *Frame) callBySig(cs calleeSig, spec *FuncSpec, args []string, res *ssa.Call, setResult func([]string), pos token.Pos) {
	vc := f.vc
	key := cs.key
	callee := cs.fn
	if spec.Trusted {
		vc.assumed[key] = true
	}
	pre := f.cur.clone()
	cn := f.nameCount(shortName(key))
	params := map[string]TV{}
	for i, n := range cs.names {
		params[n] = TV{args[i], cs.types[i]}
	}
	// free variables of a closure denote the captured variable: its value in
	// the state a clause is evaluated in (inside old(): its value before the call)
	type fvCell struct {
		ref string
		ty  types.Type
	}
	fvCells := map[string]fvCell{}
	if callee != nil {
		for i, fv := range callee.FreeVars {
			j := len(callee.Params) + i
			if j < len(args) {
				if pt, _ := fv.Type().Underlying().(*types.Pointer); pt != nil {
					fvCells[fv.Name()] = fvCell{args[j], pt.Elem()}
				}
			}
		}
	}
	mkEnv := func(cur, old *State) *TEnv {
		env := &TEnv{vc: vc, f: f, pkg: cs.pkg, vars: map[string]TV{}, cur: stateHeap{f, cur}, old: stateHeap{f, old}}
		env.lookup = func(name string) (TV, bool) {
			if c, ok := fvCells[name]; ok {
				return TV{f.loadPtr(cur, c.ref, c.ty), c.ty}, true
			}
			tv, ok := params[name]
			return tv, ok
		}
		env.lookupOld = func(name string) (TV, bool) {
			if c, ok := fvCells[name]; ok {
				return TV{f.loadPtr(old, c.ref, c.ty), c.ty}, true
			}
			tv, ok := params[name]
			return tv, ok
		}
		env.allocOld = f.get(old, vc.allocKey())
		return env
	}
	// 1. preconditions
	for i, rq := range spec.Requires {
		tv, err := mkEnv(pre, pre).tr(rq.Expr)
		if err != nil {
			vc.errorf("%s:%d: %v", rq.File, rq.Line, err)
			continue
		}
		f.oblige("pre", fmt.Sprintf("pre:%s/%s", cn, clauseName(rq, "requires", i)), tv.T, rq.Text, pos)
		vc.assume(Imp(f.curReach, tv.T))
	}
	// termination of recursion
	if callee != nil && callee == vc.fn && f.parent == nil && spec.Decreases != nil {
		tv, err := mkEnv(pre, pre).tr(spec.Decreases.Expr)
		if err == nil && vc.topFrame != nil && vc.topFrame.entryMeasure != "" {
			f.oblige("decreases", fmt.Sprintf("decreases:%s", cn), And(S("<=", "0", vc.topFrame.entryMeasure), S("<", tv.T, vc.topFrame.entryMeasure)), spec.Decreases.Text, pos)
		}
	}
	// 2. frame
	post := f.cur
	if spec.Pure {
		// nothing changes, not even the allocation watermark
	} else if !spec.HasMod {
		f.havocAll(post, key+" (no modifies clause)")
	} else {
		f.applyModifies(spec, mkEnv(pre, pre), pre, post)
	}
	// 3. results
	var results []TV
	var terms []string
	rs := cs.results
	for i := 0; i < rs.Len(); i++ {
		t := vc.fresh(f.id+"res_"+sym(cs.name), vc.eng.sortOf(rs.At(i).Type()))
		for _, inv := range vc.eng.typeInv(t, rs.At(i).Type(), f.get(post, vc.allocKey()), 0) {
			vc.assume(inv)
		}
		results = append(results, TV{t, rs.At(i).Type()})
		terms = append(terms, t)
	}
	// 4. postconditions
	env := mkEnv(post, pre)
	env.results = results
	for i := 0; i < rs.Len(); i++ {
		env.resultNames = append(env.resultNames, rs.At(i).Name())
	}
	for _, en := range spec.Ensures {
		if strings.HasPrefix(en.Name, "assume:") {
			vc.assumed[key+" ensures["+en.Name+"]"] = true
		}
		tv, err := env.tr(en.Expr)
		if err != nil {
			vc.errorf("%s:%d: %v", en.File, en.Line, err)
			continue
		}
		vc.assume(Imp(f.curReach, tv.T))
	}
	// 5. conditional frame: unless the condition holds, every state key is the
	// very one it was before the call (not merely equal cell by cell, so that
	// recursive specification functions see the same heap)
	if spec.UnchangedUnless != nil {
		tv, err := env.tr(spec.UnchangedUnless.Expr)
		if err != nil {
			vc.errorf("%s:%d: %v", spec.UnchangedUnless.File, spec.UnchangedUnless.Line, err)
		} else {
			c := vc.define(f.id+"changed", "Bool", tv.T)
			var ks []string
			for k := range post.m {
				ks = append(ks, k)
			}
			sort.Strings(ks)
			for _, k := range ks {
				srt, known := vc.eng.keySort[k]
				if !known || !condFrameKey(k) {
					continue
				}
				pv, nv := f.get(pre, k), f.get(post, k)
				if pv == nv {
					continue
				}
				f.set(post, k, vc.define(k+"@iffchanged", srt, Ite(c, nv, pv)))
			}
		}
	}
	setResult(terms)
}

func resultNames(fn *ssa.Function) []string {
	var out []string
	rs := fn.Signature.Results()
	for i := 0; i < rs.Len(); i++ {
		out = append(out, rs.At(i).Name())
	}
	return out
}

func shortName(key string) string {
	if i := strings.Index(key, "."); i >= 0 {
		return key[i+1:]
	}
	return key
}

// modTarget is one resolved item of a modifies clause.
type modTarget struct {
	key  string // state key
	idx  string // index term ("" = the whole key)
	cond string // quantified form: condition over bound variable r!m ("" = none)
}

// resolveModifies turns the modifies clauses into state keys + indices,
// evaluated in the pre-state.
func (f *Frame) resolveModifies(clauses []*Clause, env *TEnv) []modTarget {
	var out []modTarget
	for _, c := range clauses {
		ts, err := env.modTargets(c.Expr)
		if err != nil {
			f.vc.errorf("%s:%d: modifies: %v", c.File, c.Line, err)
			continue
		}
		out = append(out, ts...)
	}
	return out
}

func (f *Frame) applyModifies(spec *FuncSpec, env *TEnv, pre, post *State) {
	vc := f.vc
	targets := f.resolveModifies(spec.Modifies, env)
	byKey := map[string][]modTarget{}
	for _, t := range targets {
		byKey[t.key] = append(byKey[t.key], t)
	}
	var keys []string
	for k := range byKey {
		keys = append(keys, k)
	}
	sort.Strings(keys)
	allocPre := f.get(pre, vc.allocKey())
	// allocation watermark may grow
	na := vc.fresh("alloc@call", "Int")
	vc.assume(S("<=", allocPre, na))
	f.set(post, "alloc", na)
	if !spec.Pure {
		// ghost counters (calls through function values, calls of a named
		// function) only ever grow across a call
		for _, gk := range vc.ghostKeys() {
			dn := vc.fresh(gk+"@call", "Int")
			vc.assume(S("<=", f.get(pre, gk), dn))
			f.set(post, gk, dn)
		}
	}
	for _, k := range keys {
		old := f.get(pre, k)
		nv := vc.fresh(k+"@call", vc.eng.keySort[k])
		f.set(post, k, nv)
		whole := false
		var excl []string
		for _, t := range byKey[k] {
			if t.idx == "" && t.cond == "" {
				whole = true
			}
			if t.idx != "" {
				excl = append(excl, Not(S("=", "r!m", t.idx)))
			}
			if t.cond != "" {
				excl = append(excl, Not(t.cond))
			}
		}
		if whole || !strings.HasPrefix(vc.eng.keySort[k], "(Array Int") {
			continue
		}
		cond := And(append([]string{S("<=", "0", "r!m"), S("<=", "r!m", allocPre)}, excl...)...)
		vc.assume(fmt.Sprintf("(forall ((r!m Int)) (! (=> %s (= (select %s r!m) (select %s r!m))) :pattern ((select %s r!m))))", cond, nv, old, nv))
	}
	for _, k := range keys {
		if wf := vc.heapWF(k, f.get(post, k), na); wf != "" {
			vc.assume(wf)
		}
	}
	// Keys not mentioned keep their version. Objects the callee allocates may
	// have any contents in those keys: in the caller's view the cells of a
	// reference above the pre-call watermark were never constrained, so facts
	// the postcondition states about them are consistent (contracts never
	// quantify over raw references without an allocation guard).
}

// ---------------------------------------------------------------------------
// builtins

func (f *Frame) builtin(b *ssa.Builtin, c *ssa.CallCommon, res *ssa.Call, pos token.Pos) {
	vc := f.vc
	e := vc.eng
	switch b.Name() {
	case "len", "cap":
		a := f.val(c.Args[0])
		var t string
		switch at := c.Args[0].Type().Underlying().(type) {
		case *types.Slice:
			if b.Name() == "len" {
				t = S("s-len", a)
			} else {
				t = S("s-cap", a)
			}
		case *types.Basic:
			t = S("slen", a)
		case *types.Map:
			_, kd, kl := vc.mapKeys(at)
			t = S("select", f.get(f.cur, kl), a)
			vc.assume(mapLenFact(vc, at, a, f.get(f.cur, kl), f.get(f.cur, kd)))
		case *types.Array:
			t = fmt.Sprint(at.Len())
		case *types.Pointer:
			if ar, ok := at.Elem().Underlying().(*types.Array); ok {
				t = fmt.Sprint(ar.Len())
			}
		}
		if t == "" {
			f.unknownValue(res, "len of "+c.Args[0].Type().String())
			return
		}
		r := f.setVal(res, "Int", t)
		vc.assume(And(S("<=", "0", r), S("<=", r, lenBound)))
	case "append":
		f.appendOp(c, res)
	case "delete":
		mt := c.Args[0].Type().Underlying().(*types.Map)
		kv, kd, kl := vc.mapKeys(mt)
		m, k := f.val(c.Args[0]), f.val(c.Args[1])
		st := f.cur
		isnil := S("=", m, "0")
		dom := S("select", f.get(st, kd), m)
		had := vc.define("had", "Bool", And(Not(isnil), S("select", dom, k)))
		lenOld := S("select", f.get(st, kl), m)
		f.set(st, kl, vc.define(kl, e.keySort[kl], Ite(had, S("store", f.get(st, kl), m, S("-", lenOld, "1")), f.get(st, kl))))
		f.set(st, kd, vc.define(kd, e.keySort[kd], Ite(isnil, f.get(st, kd), S("store", f.get(st, kd), m, S("store", dom, k, "false")))))
		f.set(st, kv, vc.define(kv, e.keySort[kv], Ite(isnil, f.get(st, kv), S("store", f.get(st, kv), m, S("store", S("select", f.get(st, kv), m), k, e.zero(mt.Elem()))))))
	case "panic":
		if vc.safe {
			f.oblige("safety", f.nameCount("panic"), "false", "explicit panic reachable", pos)
		}
		vc.assume(Not(f.curReach))
	case "print", "println":
	case "copy":
		// copy(dst, src): elements of dst's backing array change
		dst := f.val(c.Args[0])
		if stt, ok := c.Args[0].Type().Underlying().(*types.Slice); ok {
			k := vc.elemKey(stt.Elem())
			old := f.get(f.cur, k)
			na := vc.fresh(f.id+"copy", "(Array Int "+e.sortOf(stt.Elem())+")")
			f.set(f.cur, k, vc.define(k, e.keySort[k], S("store", old, S("s-arr", dst), na)))
			n := vc.fresh(f.id+"ncopy", "Int")
			var srcLen string
			if _, isStr := c.Args[1].Type().Underlying().(*types.Basic); isStr {
				srcLen = S("slen", f.val(c.Args[1]))
			} else {
				srcLen = S("s-len", f.val(c.Args[1]))
			}
			vc.assume(S("=", n, Ite(S("<", S("s-len", dst), srcLen), S("s-len", dst), srcLen)))
			oa := S("select", old, S("s-arr", dst))
			vc.assume(fmt.Sprintf("(forall ((i Int)) (! (=> (or (< i (s-off %s)) (>= i (+ (s-off %s) %s))) (= (select %s i) (select %s i))) :pattern ((select %s i))))", dst, dst, n, na, oa, na))
			if sst, ok := c.Args[1].Type().Underlying().(*types.Slice); ok {
				src := f.val(c.Args[1])
				sk := vc.elemKey(sst.Elem())
				sa := S("select", old, S("s-arr", src))
				_ = sk
				vc.assume(fmt.Sprintf("(forall ((i Int)) (! (=> (and (<= 0 i) (< i %s)) (= (select %s (+ (s-off %s) i)) (select %s (+ (s-off %s) i)))) :pattern ((select %s (+ (s-off %s) i)))))", n, na, dst, sa, src, na, dst))
			}
			if res != nil {
				f.vals[res] = n
			}
			return
		}
		f.unknownValue(res, "copy")
	case "min", "max":
		if len(c.Args) == 2 {
			a, bb := f.val(c.Args[0]), f.val(c.Args[1])
			if b.Name() == "min" {
				f.setVal(res, "Int", Ite(S("<=", a, bb), a, bb))
			} else {
				f.setVal(res, "Int", Ite(S(">=", a, bb), a, bb))
			}
			return
		}
		f.unknownValue(res, b.Name())
	case "recover":
		f.vals[res] = "(mk-iface 0 0)"
	case "close":
	case "ssa:wrapnilchk":
		f.vals[res] = f.val(c.Args[0])
	default:
		vc.unsupported["builtin "+b.Name()] = true
		if res != nil {
			f.unknownValue(res, "builtin "+b.Name())
		}
	}
}

// appendOp models append faithfully, including the in-place case when the
// capacity allows, so aliasing through shared backing arrays is visible.
func (f *Frame) appendOp(c *ssa.CallCommon, res *ssa.Call) {
	vc := f.vc
	e := vc.eng
	stt := c.Args[0].Type().Underlying().(*types.Slice)
	es := e.sortOf(stt.Elem())
	k := vc.elemKey(stt.Elem())
	s := f.val(c.Args[0])
	var tlen string
	var tget func(j string) string // element j of the appended part
	if bt, ok := c.Args[1].Type().Underlying().(*types.Basic); ok && bt.Info()&types.IsString != 0 {
		t := f.val(c.Args[1])
		tlen = S("slen", t)
		tget = func(j string) string { return S("sbyte", t, j) }
	} else {
		t := f.val(c.Args[1])
		tlen = S("s-len", t)
		heapBefore := f.get(f.cur, k)
		tget = func(j string) string {
			return S("select", S("select", heapBefore, S("s-arr", t)), S("+", S("s-off", t), j))
		}
	}
	n := vc.define(f.id+"applen", "Int", S("+", S("s-len", s), tlen))
	inplace := vc.define(f.id+"inplace", "Bool", S("<=", n, S("s-cap", s)))
	old := f.get(f.cur, k)
	// fresh backing array for the growing case
	r := f.allocRef(f.cur)
	ncap := vc.fresh(f.id+"newcap", "Int")
	vc.assume(And(S("<=", n, ncap), S("<=", ncap, lenBound)))
	// constant small appended part (varargs of known length)?
	small := -1
	if sl, ok := c.Args[1].(*ssa.Slice); ok {
		if al, ok := sl.X.(*ssa.Alloc); ok {
			if at, ok := al.Type().(*types.Pointer).Elem().Underlying().(*types.Array); ok && sl.Low == nil && sl.High == nil && at.Len() <= 4 {
				small = int(at.Len())
			}
		}
	}
	oldArr := S("select", old, S("s-arr", s))
	var inArr, newArr string
	if small >= 0 {
		inArr = oldArr
		for j := 0; j < small; j++ {
			inArr = S("store", inArr, S("+", S("s-off", s), S("s-len", s), fmt.Sprint(j)), tget(fmt.Sprint(j)))
		}
		inArr = vc.define(f.id+"inarr", "(Array Int "+es+")", inArr)
	} else {
		inArr = vc.fresh(f.id+"inarr", "(Array Int "+es+")")
		vc.assume(fmt.Sprintf("(forall ((i Int)) (! (=> (or (< i (+ (s-off %s) (s-len %s))) (>= i (+ (s-off %s) %s))) (= (select %s i) (select %s i))) :pattern ((select %s i))))", s, s, s, n, inArr, oldArr, inArr))
		vc.assume(fmt.Sprintf("(forall ((j Int)) (! (=> (and (<= 0 j) (< j %s)) (= (select %s (+ (s-off %s) (s-len %s) j)) %s)) :pattern ((select %s (+ (s-off %s) (s-len %s) j)))))", tlen, inArr, s, s, tget("j"), inArr, s, s))
	}
	newArr = vc.fresh(f.id+"newarr", "(Array Int "+es+")")
	vc.assume(fmt.Sprintf("(forall ((i Int)) (! (=> (and (<= 0 i) (< i (s-len %s))) (= (select %s i) (select %s (+ (s-off %s) i)))) :pattern ((select %s i))))", s, newArr, oldArr, s, newArr))
	if small >= 0 {
		for j := 0; j < small; j++ {
			vc.assume(S("=", S("select", newArr, S("+", S("s-len", s), fmt.Sprint(j))), tget(fmt.Sprint(j))))
		}
	} else {
		vc.assume(fmt.Sprintf("(forall ((j Int)) (! (=> (and (<= 0 j) (< j %s)) (= (select %s (+ (s-len %s) j)) %s)) :pattern ((select %s (+ (s-len %s) j)))))", tlen, newArr, s, tget("j"), newArr, s))
	}
	f.set(f.cur, k, vc.define(k, e.keySort[k], Ite(inplace, S("store", old, S("s-arr", s), inArr), S("store", old, r, newArr))))
	if res != nil {
		f.setVal(res, "Slice", Ite(inplace, S("mk-slice", S("s-arr", s), S("s-off", s), n, S("s-cap", s)), S("mk-slice", r, "0", n, ncap)))
	}
}
