package main

// Ghost lock state (C19). sync.Mutex / sync.RWMutex operations update a ghost
// array `held` per mutex field: 0 free, 1 write-locked, 2 read-locked by this
// thread. Fields declared `guarded_by` generate an obligation at every access
// that the guarding mutex of the same object is held (write-held for writes),
// unless the object was allocated in this call (not yet shared). Functions must
// return with the lock state they were entered with.

import (
	"fmt"
	"go/token"
	"go/types"
	"strings"

	"golang.org/x/tools/go/ssa"
)

type guardInfo struct {
	writesOnly bool
	lockKey    string
	obj        string
	what       string
}

// lockKeyOf returns the ghost key and object index of the mutex denoted by lv.
func (f *Frame) lockKeyOf(lv *LVal) (string, string, bool) {
	if len(lv.idx) == 0 {
		return "", "", false
	}
	k := "lock:" + lv.key + f.pathString(lv.path)
	f.vc.regKey(k, "(Array Int Int)")
	return k, lv.idx[0], true
}

func (f *Frame) pathString(path []pathEl) string {
	var sb strings.Builder
	for _, p := range path {
		if p.isField {
			sb.WriteString("/" + p.ssort + "." + f.vc.eng.sorts.fields[p.ssort][p.fidx].Name)
		} else {
			sb.WriteString("/[]")
		}
	}
	return sb.String()
}

// syncCall handles Lock/Unlock/RLock/RUnlock; returns true if handled.
func (f *Frame) syncCall(c *ssa.CallCommon, pos token.Pos) bool {
	callee := c.StaticCallee()
	if callee == nil || callee.Pkg == nil || callee.Pkg.Pkg.Path() != "sync" || len(c.Args) == 0 {
		return false
	}
	recv := callee.Signature.Recv()
	if recv == nil {
		return false
	}
	rt := types.TypeString(recv.Type(), nil)
	if rt != "*sync.Mutex" && rt != "*sync.RWMutex" {
		return false
	}
	lv, ok := f.lvals[c.Args[0]]
	if !ok {
		f.vc.unsupported["mutex reached through a pointer value"] = true
		return true
	}
	key, obj, ok := f.lockKeyOf(lv)
	if !ok {
		f.vc.unsupported["mutex in a local variable"] = true
		return true
	}
	vc := f.vc
	vc.usesLocks = true
	held := f.get(f.cur, key)
	cur := S("select", held, obj)
	name := strings.TrimPrefix(key, "lock:H:")
	set := func(v string) {
		f.set(f.cur, key, vc.define(key, "(Array Int Int)", S("store", held, obj, v)))
	}
	switch callee.Name() {
	case "Lock":
		f.lockOblige(f.nameCount("lock:free-before-Lock:"+name), S("=", cur, "0"), "Lock of a mutex this call already holds (self-deadlock)", pos)
		set("1")
	case "Unlock":
		f.lockOblige(f.nameCount("lock:held-before-Unlock:"+name), S("=", cur, "1"), "Unlock of a mutex that is not write-locked here", pos)
		set("0")
	case "RLock":
		f.lockOblige(f.nameCount("lock:free-before-RLock:"+name), S("=", cur, "0"), "RLock of a mutex this call already holds", pos)
		set("2")
	case "RUnlock":
		f.lockOblige(f.nameCount("lock:rheld-before-RUnlock:"+name), S("=", cur, "2"), "RUnlock of a mutex that is not read-locked here", pos)
		set("0")
	default:
		vc.unsupported["sync method "+callee.Name()] = true
	}
	return true
}

func (f *Frame) lockOblige(name, cond, text string, pos token.Pos) {
	f.oblige("lock", name, cond, text, pos)
	f.vc.assume(Imp(f.curReach, cond))
}

// guardFor returns the guard of an l-value that denotes a guarded_by field.
func (f *Frame) guardFor(lv *LVal) (guardInfo, bool) {
	eng := f.vc.eng
	if len(eng.guards) == 0 || len(lv.idx) == 0 {
		return guardInfo{}, false
	}
	var structSort, field string
	var prefixKey string
	var prefixPath []pathEl
	if len(lv.path) == 0 {
		// H:<S>.<field>
		if !strings.HasPrefix(lv.key, "H:") {
			return guardInfo{}, false
		}
		rest := lv.key[2:]
		i := strings.LastIndex(rest, ".")
		structSort, field = rest[:i], rest[i+1:]
	} else {
		last := lv.path[len(lv.path)-1]
		if !last.isField {
			return guardInfo{}, false
		}
		structSort, field = last.ssort, eng.sorts.fields[last.ssort][last.fidx].Name
		prefixKey = lv.key
		prefixPath = lv.path[:len(lv.path)-1]
	}
	mu, ok := eng.guards[structSort+"."+field]
	if !ok {
		return guardInfo{}, false
	}
	var key string
	if len(lv.path) == 0 {
		key = "lock:H:" + structSort + "." + mu
	} else {
		key = "lock:" + prefixKey + f.pathString(prefixPath) + "/" + structSort + "." + mu
	}
	f.vc.regKey(key, "(Array Int Int)")
	return guardInfo{lockKey: key, obj: lv.idx[0], what: strings.TrimPrefix(structSort, "S_") + "." + field, writesOnly: eng.guardWritesOnly[structSort+"."+field]}, true
}

// guardAccess emits the obligation for one access through a guard.
func (f *Frame) guardAccess(g guardInfo, write bool, how string, pos token.Pos) {
	if g.writesOnly && !write {
		return
	}
	vc := f.vc
	vc.usesLocks = true
	held := S("select", f.get(f.cur, g.lockKey), g.obj)
	alloc0 := f.get(f.entry0(), vc.allocKey())
	var cond string
	if write {
		cond = Or(S("=", held, "1"), S(">", g.obj, alloc0))
	} else {
		cond = Or(Not(S("=", held, "0")), S(">", g.obj, alloc0))
	}
	kind := "read"
	if write {
		kind = "write"
	}
	f.oblige("guard", f.nameCount(fmt.Sprintf("guard:%s:%s(%s)", g.what, kind, how)), cond, fmt.Sprintf("%s of %s requires its mutex to be held", kind, g.what), pos)
}

func (f *Frame) entry0() *State {
	fr := f
	for fr.parent != nil {
		fr = fr.parent
	}
	return fr.entry
}

// lockBalance: at return every mutex is in the state it was in at entry.
func (f *Frame) lockBalance(entry, final *State, reach string, goals map[string][]string) {
	for k := range final.m {
		if !strings.HasPrefix(k, "lock:") {
			continue
		}
		nv, ov := f.get(final, k), f.get(entry, k)
		if nv == ov {
			continue
		}
		goals[k] = append(goals[k], Imp(reach, fmt.Sprintf("(forall ((r!l Int)) (= (select %s r!l) (select %s r!l)))", nv, ov)))
	}
}

// lockFunctions lists the functions of the packages under verification that
// call a sync lock method or address a mutex / guarded field.
func (e *Engine) lockFunctions() []*ssa.Function {
	var out []*ssa.Function
	var keys []string
	byKey := map[string]*ssa.Function{}
	for k, fn := range e.fnByName {
		if fn.Pkg == nil || !e.target[fn.Pkg.Pkg] || fn.Blocks == nil {
			continue
		}
		if e.touchesLocks(fn) {
			keys = append(keys, k)
			byKey[k] = fn
		}
	}
	sortStrings(keys)
	for _, k := range keys {
		out = append(out, byKey[k])
	}
	return out
}

func (e *Engine) touchesLocks(fn *ssa.Function) bool {
	for _, b := range fn.Blocks {
		for _, in := range b.Instrs {
			switch x := in.(type) {
			case *ssa.FieldAddr:
				st := x.X.Type().Underlying().(*types.Pointer).Elem()
				sn := e.sortOf(st)
				fld := st.Underlying().(*types.Struct).Field(x.Field)
				if _, ok := e.guards[sn+"."+fld.Name()]; ok {
					return true
				}
				ts := types.TypeString(fld.Type(), nil)
				if ts == "sync.Mutex" || ts == "sync.RWMutex" {
					return true
				}
			}
		}
	}
	return false
}

// initOnlyScan checks syntactically (over go/ssa, no solver) that the named
// package-level variables are written only by package initialisation: no
// function other than init stores to them, updates or deletes from the map
// they hold, or appends through them. One finding per offending instruction.
func (e *Engine) initOnlyScan(names []string) (checked int, bad []string) {
	set := map[string]bool{}
	for _, n := range names {
		set[n] = true
	}
	// every other package-level variable of the packages under contract is
	// held to the same rule: a variable added later is covered without being
	// named in a contract
	for pk, isT := range e.target {
		if !isT {
			continue
		}
		sp := e.prog.Package(pk)
		if sp == nil {
			continue
		}
		for mn, m := range sp.Members {
			if _, ok := m.(*ssa.Global); ok && !strings.HasPrefix(mn, "init$") {
				set[mn] = true
			}
		}
	}
	isInitGlobalLoad := func(v ssa.Value) (string, bool) {
		if u, ok := v.(*ssa.UnOp); ok && u.Op == token.MUL {
			if g, ok := u.X.(*ssa.Global); ok && set[g.Name()] && g.Pkg != nil && e.target[g.Pkg.Pkg] {
				return g.Name(), true
			}
		}
		return "", false
	}
	var keys []string
	for k := range e.fnByName {
		keys = append(keys, k)
	}
	sortStrings(keys)
	// functions that run only during package initialisation: init itself, and
	// (to a fixpoint) functions all of whose references are direct calls from
	// such functions -- a closure that is stored or passed on is not exempt
	exempt := map[*ssa.Function]bool{}
	var all []*ssa.Function
	for _, k := range keys {
		fn := e.fnByName[k]
		if fn.Pkg == nil || !e.target[fn.Pkg.Pkg] || fn.Blocks == nil {
			continue
		}
		all = append(all, fn)
		if fn.Name() == "init" || strings.HasPrefix(fn.Name(), "init#") || fn.Synthetic == "package initializer" {
			exempt[fn] = true
		}
	}
	// references: fn -> list of (referrer function, isDirectCall)
	type ref struct {
		from   *ssa.Function
		direct bool
	}
	refs := map[*ssa.Function][]ref{}
	for _, fn := range all {
		for _, b := range fn.Blocks {
			for _, in := range b.Instrs {
				if _, isDbg := in.(*ssa.DebugRef); isDbg {
					continue
				}
				var ops []*ssa.Value
				ops = in.Operands(ops)
				for _, op := range ops {
					if op == nil || *op == nil {
						continue
					}
					switch v := (*op).(type) {
					case *ssa.Function:
						if mc, isMC := in.(*ssa.MakeClosure); isMC && mc.Fn == v {
							continue // creating the closure is not a use; uses of the closure value are counted below
						}
						direct := false
						if ci, ok := in.(ssa.CallInstruction); ok && ci.Common().Value == v {
							_, isDefer := in.(*ssa.Defer)
							_, isGo := in.(*ssa.Go)
							direct = !isGo && (!isDefer || true)
						}
						refs[v] = append(refs[v], ref{fn, direct})
					case *ssa.MakeClosure:
						// the closure value itself: how is it used here?
						cf := v.Fn.(*ssa.Function)
						direct := false
						if ci, ok := in.(ssa.CallInstruction); ok && ci.Common().Value == v {
							direct = true
						}
						if _, isDbg := in.(*ssa.DebugRef); isDbg {
							continue
						}
						refs[cf] = append(refs[cf], ref{fn, direct})
					}
				}
			}
		}
	}
	// greatest fixpoint: a function is NOT exempt if it is an entry point
	// (never referenced), is referenced other than by a direct call, or is
	// called from a function that is not exempt
	nonExempt := map[*ssa.Function]bool{}
	for _, fn := range all {
		if exempt[fn] {
			continue
		}
		if len(refs[fn]) == 0 {
			nonExempt[fn] = true
		}
		for _, r := range refs[fn] {
			if !r.direct {
				nonExempt[fn] = true
			}
		}
	}
	for changed := true; changed; {
		changed = false
		for _, fn := range all {
			if exempt[fn] || nonExempt[fn] {
				continue
			}
			for _, r := range refs[fn] {
				if nonExempt[r.from] {
					nonExempt[fn] = true
					changed = true
				}
			}
		}
	}
	for _, fn := range all {
		if !nonExempt[fn] {
			exempt[fn] = true
		}
	}
	for _, k := range keys {
		fn := e.fnByName[k]
		if fn.Pkg == nil || !e.target[fn.Pkg.Pkg] || fn.Blocks == nil {
			continue
		}
		if exempt[fn] {
			continue
		}
		checked++
		for _, b := range fn.Blocks {
			for _, in := range b.Instrs {
				switch x := in.(type) {
				case *ssa.Store:
					if g, ok := x.Addr.(*ssa.Global); ok && set[g.Name()] && e.target[g.Pkg.Pkg] {
						bad = append(bad, fmt.Sprintf("%s assigns %s (%s)", k, g.Name(), e.pos(x.Pos())))
					}
					// a field of a global struct, an element of a global array or
					// of the slice a global holds
					addr := x.Addr
					for depth := 0; depth < 4; depth++ {
						switch a := addr.(type) {
						case *ssa.FieldAddr:
							addr = a.X
							continue
						case *ssa.IndexAddr:
							if n, ok := isInitGlobalLoad(a.X); ok {
								bad = append(bad, fmt.Sprintf("%s writes an element of %s (%s)", k, n, e.pos(x.Pos())))
							}
							addr = a.X
							continue
						}
						break
					}
					if g, ok := addr.(*ssa.Global); ok && addr != x.Addr && set[g.Name()] && e.target[g.Pkg.Pkg] {
						bad = append(bad, fmt.Sprintf("%s writes inside %s (%s)", k, g.Name(), e.pos(x.Pos())))
					}
				case *ssa.MapUpdate:
					if n, ok := isInitGlobalLoad(x.Map); ok {
						bad = append(bad, fmt.Sprintf("%s updates the map %s (%s)", k, n, e.pos(x.Pos())))
					}
				case *ssa.Call:
					if bi, ok := x.Call.Value.(*ssa.Builtin); ok && bi.Name() == "delete" {
						if n, ok := isInitGlobalLoad(x.Call.Args[0]); ok {
							bad = append(bad, fmt.Sprintf("%s deletes from the map %s (%s)", k, n, e.pos(x.Pos())))
						}
					}
				}
			}
		}
	}
	return
}
