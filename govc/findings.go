package main

import (
	"encoding/json"
	"fmt"
	"os"
	"path/filepath"
	"strings"
)

// KNOWN_FINDINGS.txt lines:
//   open: property=<id> obligation=<name> <what fails>
//   fixed: property=<id> <commit> <what failed>
// Only `open` lines suppress anything, and only the named obligation.

type knownFinding struct {
	Prop, Obligation, What string
}

type knownSet struct{ open []knownFinding }

func loadKnownFindings(path string) *knownSet {
	ks := &knownSet{}
	data, err := os.ReadFile(path)
	if err != nil {
		return ks
	}
	for _, ln := range strings.Split(string(data), "\n") {
		ln = strings.TrimSpace(ln)
		if !strings.HasPrefix(ln, "open:") {
			continue
		}
		rest := strings.TrimSpace(ln[5:])
		var kf knownFinding
		f := strings.Fields(rest)
		var what []string
		for _, w := range f {
			switch {
			case strings.HasPrefix(w, "property=") && kf.Prop == "":
				kf.Prop = w[9:]
			case strings.HasPrefix(w, "obligation=") && kf.Obligation == "":
				kf.Obligation = w[11:]
			default:
				what = append(what, w)
			}
		}
		kf.What = strings.Join(what, " ")
		ks.open = append(ks.open, kf)
	}
	return ks
}

func (ks *knownSet) match(prop, obligation string) *knownFinding {
	for i := range ks.open {
		k := &ks.open[i]
		if k.Prop == prop && k.Obligation == obligation {
			return k
		}
	}
	return nil
}

func writeReplay(dir, prop, name, why string, r *Result) string {
	os.MkdirAll(dir, 0o755)
	path := filepath.Join(dir, sym(name)+".json")
	m := map[string]interface{}{"property": prop, "obligation": name, "reason": why}
	if r != nil {
		m["status"] = r.Status
		m["solver"] = r.Solver
		m["smt_file"] = r.File
		m["answers"] = r.Answers
		m["clause"] = r.Obl.Text
		m["position"] = r.Obl.Pos
		m["loop_free_prefix"] = r.Obl.LoopFree
		if r.Model != "" {
			mod := r.Model
			if len(mod) > 20000 {
				mod = mod[:20000] + "..."
			}
			m["model"] = mod
		}
		if r.Output != "" {
			m["solver_output"] = r.Output
		}
		if r.replayNote != "" {
			m["replay"] = r.replayNote
		}
		if r.replayInput != nil {
			m["failing_input"] = r.replayInput
		}
	}
	data, _ := json.MarshalIndent(m, "", " ")
	os.WriteFile(path, data, 0o644)
	return path
}

func init() { _ = fmt.Sprint }
