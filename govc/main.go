package main

import (
	"encoding/json"
	"flag"
	"fmt"
	"go/types"
	"os"
	"path/filepath"
	"sort"
	"strings"
	"time"
)

var (
	flagRepo    = flag.String("repo", "/repo", "repository root")
	flagVerif   = flag.String("verif", "/verif", "verification directory")
	flagProp    = flag.String("prop", "", "property id")
	flagTier    = flag.String("tier", "quick", "quick|thorough")
	flagFn      = flag.String("fn", "", "restrict to one function key (pkg.name)")
	flagTimeout = flag.Int("timeout", 20, "solver timeout in seconds")
	flagWorkers = flag.Int("j", 16, "parallel solver workers")
	flagOut     = flag.String("out", "", "work directory for SMT files")
	flagV       = flag.Bool("v", false, "verbose")
	flagOnly    = flag.String("only", "", "substring filter on obligation names")
	flagReplayD = flag.String("replaydir", "", "directory for replay files")
	flagNoRepl  = flag.Bool("noreplay", false, "do not replay models on the real code")
	flagNoBound = flag.Bool("nobounded", false, "skip the bounded stand-ins")
	flagFile    = flag.String("file", "", "replay file")
	flagNoEvid  = flag.Bool("noevidence", false, "do not write the evidence file")
)

func specPaths(repo, verif string) []string {
	var out []string
	add := func(pkg, rel string) {
		p := filepath.Join(repo, rel)
		if _, err := os.Stat(p); err != nil {
			// fall back to the mirror
			m := filepath.Join(verif, "contracts", "mirror", strings.ReplaceAll(rel, "/", "__"))
			if _, err2 := os.Stat(m); err2 == nil {
				fmt.Fprintf(os.Stderr, "note: %s absent from the repository, using mirror %s\n", rel, m)
				p = m
			}
		}
		out = append(out, pkg+"="+p)
	}
	add("yang", "pkg/yang/zz_contracts_verif.go")
	add("indent", "pkg/indent/zz_contracts_verif.go")
	// generated no-panic contracts (C01 sweep), see /verif/selftest/gen_c01.py
	for _, x := range [][2]string{{"yang", "pkg/yang/zz_contracts_c01_verif.go"}, {"indent", "pkg/indent/zz_contracts_c01_verif.go"}} {
		if _, err := os.Stat(filepath.Join(repo, x[1])); err == nil {
			out = append(out, x[0]+"="+filepath.Join(repo, x[1]))
		}
	}
	// assumed contracts on dependencies
	entries, _ := filepath.Glob(filepath.Join(verif, "contracts", "stdlib", "*.spec"))
	sort.Strings(entries)
	for _, e := range entries {
		pkg := strings.TrimSuffix(filepath.Base(e), ".spec")
		out = append(out, pkg+"="+e)
	}
	return out
}

func main() {
	if len(os.Args) < 2 {
		fmt.Fprintln(os.Stderr, "usage: govc check|dump|list [flags]")
		os.Exit(2)
	}
	cmd := os.Args[1]
	flag.CommandLine.Parse(os.Args[2:])
	switch cmd {
	case "check":
		os.Exit(cmdCheck())
	case "dump":
		os.Exit(cmdDump())
	case "list":
		os.Exit(cmdList())
	case "replay":
		os.Exit(cmdReplay())
	case "sweep":
		os.Exit(cmdSweep())
	default:
		fmt.Fprintln(os.Stderr, "unknown command", cmd)
		os.Exit(2)
	}
}

func loadEngine() (*Engine, error) {
	return NewEngine(*flagRepo, []string{"./pkg/yang", "./pkg/indent"}, specPaths(*flagRepo, *flagVerif))
}

func hasProp(props []string, p string) bool {
	for _, x := range props {
		if x == p {
			return true
		}
	}
	return false
}

func cmdList() int {
	e, err := loadEngine()
	if err != nil {
		fmt.Fprintln(os.Stderr, err)
		return 2
	}
	for _, k := range e.spec.Order {
		fs := e.spec.Funcs[k]
		fmt.Printf("%-50s props=%v req=%d ens=%d loops=%d trusted=%v\n", k, fs.Props, len(fs.Requires), len(fs.Ensures), len(fs.Loops), fs.Trusted)
	}
	for _, n := range e.notes {
		fmt.Println("note:", n)
	}
	return 0
}

func cmdDump() int {
	e, err := loadEngine()
	if err != nil {
		fmt.Fprintln(os.Stderr, err)
		return 2
	}
	fn := e.fnByName[*flagFn]
	if fn == nil {
		fmt.Fprintln(os.Stderr, "no such function", *flagFn)
		return 2
	}
	vc := newFuncVC(e, fn)
	vc.generate()
	vc.finish()
	for _, er := range vc.errs {
		fmt.Println("ERROR:", er)
	}
	for _, o := range vc.obls {
		fmt.Printf("%-8s %s  (%s)\n", o.Kind, o.Name, o.Text)
	}
	if *flagOnly != "" {
		for _, o := range vc.obls {
			if strings.Contains(o.Name, *flagOnly) {
				fmt.Println(o.SMT(true))
				break
			}
		}
	}
	for u := range vc.unsupported {
		fmt.Println("unsupported:", u)
	}
	for u := range vc.unknownCalls {
		fmt.Println("unknown call:", u)
	}
	return 0
}

// ---------------------------------------------------------------------------

type fnReport struct {
	Name        string   `json:"name"`
	Pos         string   `json:"pos"`
	Requires    int      `json:"requires"`
	Ensures     int      `json:"ensures"`
	Invariants  int      `json:"invariants"`
	SSAInstrs   int      `json:"ssa_instructions"`
	Obligations int      `json:"obligations"`
	Discharged  int      `json:"discharged"`
	Inlined     []string `json:"inlined_callees,omitempty"`
	Unknown     []string `json:"unknown_calls,omitempty"`
	Unsupported []string `json:"unmodelled,omitempty"`
	Unclaimed   []string `json:"generated_but_not_claimed,omitempty"` // partial contract (`only`): proved clauses assume these hold
}

type oblReport struct {
	Name        string            `json:"name"`
	Kind        string            `json:"kind"`
	Status      string            `json:"status"`
	Solver      string            `json:"solver,omitempty"`
	Millis      int64             `json:"ms"`
	Bytes       int               `json:"smt_bytes"`
	Text        string            `json:"text,omitempty"`
	Answers     map[string]string `json:"answers,omitempty"`
	Cases       int               `json:"split_cases,omitempty"`
	CasesProved int               `json:"split_cases_proved,omitempty"`
}

func sortedKeys(m map[string]bool) []string {
	var out []string
	for k := range m {
		out = append(out, k)
	}
	sort.Strings(out)
	return out
}

func cmdCheck() int {
	start := time.Now()
	prop := *flagProp
	if prop == "" {
		fmt.Fprintln(os.Stderr, "-prop required")
		return 2
	}
	tier := *flagTier
	seed := 0
	fmt.Sscan(os.Getenv("VERIF_SEED"), &seed)
	outDir := *flagOut
	if outDir == "" {
		outDir = filepath.Join(*flagVerif, "out", "smt", prop)
	}
	os.RemoveAll(outDir)
	replayDir := filepath.Join(*flagVerif, "replays", prop)
	if *flagReplayD != "" {
		replayDir = *flagReplayD
	}
	os.RemoveAll(replayDir)

	e, err := loadEngine()
	if err != nil {
		// the tree does not build: nothing can be verified
		fmt.Printf("ERROR: cannot load %s: %v\n", *flagRepo, err)
		writeLoadFailure(prop, tier, seed, replayDir, err, start)
		return 1
	}
	known := loadKnownFindings(filepath.Join(*flagVerif, "KNOWN_FINDINGS.txt"))

	var vcs []*FuncVC
	var obls []*Obligation
	var genErrs []string
	var reports []*fnReport
	repByFn := map[string]*fnReport{}
	missing := []string{}
	for _, k := range e.spec.Order {
		fs := e.spec.Funcs[k]
		if !hasProp(fs.Props, prop) || fs.Trusted {
			continue
		}
		if *flagFn != "" && *flagFn != k {
			continue
		}
		if fs.Implementations {
			// a contract on an interface method: every implementation in the
			// packages under verification must satisfy it
			impls := e.implementations(k)
			if len(impls) == 0 {
				missing = append(missing, k)
				continue
			}
			for _, im := range impls {
				vc := newFuncVC(e, im.fn)
				vc.outDir = outDir
				vc.spec = fs
				vc.ifaceRecv = im.iface
				vc.ifaceImpl = im.recv
				vc.key = k + "@" + typeShort(im.recv)
				vc.generate()
				vc.finish()
				vcs = append(vcs, vc)
				for _, er := range vc.errs {
					genErrs = append(genErrs, vc.key+": "+er)
				}
				rep := &fnReport{Name: vc.key, Pos: fnPosition(e, im.fn), Requires: len(fs.Requires), Ensures: len(fs.Ensures), SSAInstrs: vc.ssaInstrs,
					Inlined: sortedKeys(vc.inlined), Unknown: sortedKeys(vc.unknownCalls), Unsupported: sortedKeys(vc.unsupported), Unclaimed: sortedKeys(vc.unclaimed)}
				reports = append(reports, rep)
				repByFn[vc.key] = rep
				obls = append(obls, vc.obls...)
			}
			continue
		}
		fn := e.fnByName[k]
		if fn == nil {
			missing = append(missing, k)
			continue
		}
		if fn.Blocks == nil {
			continue
		}
		vc := newFuncVC(e, fn)
		vc.outDir = outDir
		vc.generate()
		vc.finish()
		vcs = append(vcs, vc)
		for _, er := range vc.errs {
			genErrs = append(genErrs, k+": "+er)
		}
		ninv := 0
		for _, l := range fs.Loops {
			ninv += len(l.Invs)
		}
		rep := &fnReport{Name: k, Pos: fnPosition(e, fn), Requires: len(fs.Requires), Ensures: len(fs.Ensures), Invariants: ninv, SSAInstrs: vc.ssaInstrs,
			Inlined: sortedKeys(vc.inlined), Unknown: sortedKeys(vc.unknownCalls), Unsupported: sortedKeys(vc.unsupported), Unclaimed: sortedKeys(vc.unclaimed)}
		reports = append(reports, rep)
		repByFn[k] = rep
		obls = append(obls, expandSplits(vc, fs)...)
	}
	// lock sweep: every function that touches a mutex or a guarded field
	if hasProp(e.spec.LockProps, prop) {
		done := map[string]bool{}
		for _, vc := range vcs {
			done[vc.key] = true
		}
		for _, fn := range e.lockFunctions() {
			k := fnKey(fn)
			if done[k] || (*flagFn != "" && *flagFn != k) {
				continue
			}
			vc := newFuncVC(e, fn)
			vc.outDir = outDir
			if vc.spec == nil {
				vc.spec = &FuncSpec{Name: shortName(k), Pkg: fn.Pkg.Pkg.Name(), Loops: map[int]*LoopSpec{}, Props: []string{prop}}
			}
			vc.lockOnly = true
			vc.generate()
			vc.finish()
			vcs = append(vcs, vc)
			for _, er := range vc.errs {
				genErrs = append(genErrs, k+": "+er)
			}
			rep := &fnReport{Name: k + " (lock discipline)", Pos: fnPosition(e, fn), SSAInstrs: vc.ssaInstrs, Unknown: sortedKeys(vc.unknownCalls), Unsupported: sortedKeys(vc.unsupported)}
			reports = append(reports, rep)
			repByFn[k] = rep
			for _, o := range vc.obls {
				if o.Kind == "lock" || o.Kind == "guard" {
					o.Props = []string{prop}
					obls = append(obls, o)
				}
			}
		}
	}
	// lemmas
	for _, l := range e.spec.Lemmas {
		if !hasProp(l.Props, prop) {
			continue
		}
		if *flagFn != "" && *flagFn != "lemma:"+l.Name {
			continue
		}
		vc := &FuncVC{eng: e, key: "lemma:" + l.Name, universe: map[string]bool{}, loopMods: map[string]map[string]bool{}}
		vc.genLemma(l)
		vc.finish()
		vcs = append(vcs, vc)
		for _, er := range vc.errs {
			genErrs = append(genErrs, "lemma "+l.Name+": "+er)
		}
		rep := &fnReport{Name: "lemma:" + l.Name, Requires: len(l.Requires), Ensures: len(l.Ensures)}
		reports = append(reports, rep)
		repByFn["lemma:"+l.Name] = rep
		obls = append(obls, vc.obls...)
	}
	// a clause may carry other properties than its function (props_of)
	{
		var f []*Obligation
		for _, o := range obls {
			if len(o.Props) == 0 || hasProp(o.Props, prop) {
				f = append(f, o)
			}
		}
		obls = f
	}
	if *flagOnly != "" {
		var f []*Obligation
		for _, o := range obls {
			if strings.Contains(o.Name, *flagOnly) {
				f = append(f, o)
			}
		}
		obls = f
	}
	secs := *flagTimeout
	all := false
	if tier == "thorough" {
		secs = 120
		all = true
	}
	for _, o := range obls {
		if known.match(prop, o.Name) != nil {
			o.MaxSecs = 4 // a recorded finding is expected not to discharge: do not wait for it
		}
	}
	results := solveAll(obls, outDir, secs, *flagWorkers, all)
	// Obligations that ran out of time (not refuted) are tried once more with
	// little competition for the cores and three times the budget: a loaded
	// machine must not turn a slow proof into an alarm.
	{
		var again []int
		for i, r := range results {
			if !r.Obl.Probe && r.Obl.MaxSecs == 0 && (r.Status == "timeout" || r.Status == "unknown" || r.Status == "error") {
				again = append(again, i)
			}
		}
		if len(again) > 0 && len(again) <= 24 {
			var ro []*Obligation
			for _, i := range again {
				ro = append(ro, results[i].Obl)
			}
			rr := solveAll(ro, outDir, secs*3, 4, false)
			for j, i := range again {
				if rr[j].Status == "proved" {
					rr[j].Answers["retry"] = "second attempt with a longer time limit"
					results[i] = rr[j]
				}
			}
		}
	}

	// classify: an obligation with split cases is discharged iff every case is
	nObl, nDis, nKnownObl := 0, 0, 0
	var failed []*Result
	var oreps []oblReport
	var solverMs int64
	backends := map[string]int{}
	var vacuous []*Result
	type group struct {
		first   *Result
		bad     *Result
		n, ok   int
		ms      int64
		bytes   int
		solvers map[string]int
	}
	groups := map[string]*group{}
	var gorder []string
	for _, r := range results {
		o := r.Obl
		g := groups[o.Name]
		if g == nil {
			g = &group{first: r, solvers: map[string]int{}}
			groups[o.Name] = g
			gorder = append(gorder, o.Name)
		}
		g.n++
		g.ms += r.Millis
		g.bytes += r.Bytes
		solverMs += r.Millis
		if r.Status == "proved" || r.Status == "probe-ok" {
			g.ok++
			if r.Solver != "" {
				g.solvers[r.Solver]++
			}
		} else if g.bad == nil {
			g.bad = r
		}
	}
	for _, name := range gorder {
		g := groups[name]
		o := g.first.Obl
		rr := g.first
		if g.bad != nil {
			rr = g.bad
		}
		status := rr.Status
		var sv []string
		for s, n := range g.solvers {
			sv = append(sv, fmt.Sprintf("%s:%d", s, n))
		}
		sort.Strings(sv)
		orep := oblReport{Name: name, Kind: o.Kind, Status: status, Solver: strings.Join(sv, " "), Millis: g.ms, Bytes: g.bytes, Text: o.Text, Answers: rr.Answers}
		if g.n > 1 {
			orep.Cases = g.n
			orep.CasesProved = g.ok
		}
		oreps = append(oreps, orep)
		if o.Probe {
			if g.bad != nil && g.bad.Status == "vacuous" {
				vacuous = append(vacuous, g.bad)
			}
			continue
		}
		if g.bad != nil && known.match(prop, name) != nil {
			// a recorded finding: reported as KNOWN-FINDING, not counted as a claimed obligation
			nKnownObl++
			failed = append(failed, g.bad)
			continue
		}
		nObl++
		if rep := repByFn[o.Fn]; rep != nil {
			rep.Obligations++
		}
		if g.bad == nil {
			nDis++
			for s, n := range g.solvers {
				backends[s] += n
			}
			if rep := repByFn[o.Fn]; rep != nil {
				rep.Discharged++
			}
		} else {
			failed = append(failed, g.bad)
		}
		if *flagV || g.bad != nil {
			cs := ""
			if rr.Obl.Case != "" {
				cs = fmt.Sprintf(" [%s] (%d/%d cases)", rr.Obl.Case, g.ok, g.n)
			}
			fmt.Printf("  %-9s %-70s %s %dms %v%s\n", status, name, orep.Solver, g.ms, rr.Answers, cs)
		}
	}

	violations := 0
	var vioLines []string
	var knownLines []string
	report := func(name, why string, r *Result) {
		if kf := known.match(prop, name); kf != nil {
			knownLines = append(knownLines, fmt.Sprintf("KNOWN-FINDING: property=%s obligation=%s %s", prop, name, kf.What))
			return
		}
		violations++
		path := writeReplay(replayDir, prop, name, why, r)
		line := fmt.Sprintf("VIOLATION property=%s replay=%s obligation=%s", prop, path, name)
		if r == nil || r.Status != "sat" || !r.replayed {
			line += " no-failing-input-found"
		}
		vioLines = append(vioLines, line)
	}
	for _, m := range missing {
		report(m+"/exists", "function under contract not found in the tree", nil)
	}
	for _, ge := range genErrs {
		report("generator:"+ge, "contract could not be translated: "+ge, nil)
	}
	for _, r := range vacuous {
		report(r.Obl.Name, "assumptions of the contract are contradictory (vacuous proof)", r)
	}
	for _, r := range failed {
		name := r.Obl.Name
		if !*flagNoRepl {
			tryReplay(e, r)
		}
		report(name, "obligation not discharged: "+r.Status, r)
	}
	// init-only globals: a syntactic frame condition over go/ssa
	var initOnlyNote string
	if hasProp(e.spec.LockProps, prop) && len(e.spec.InitOnly) > 0 && *flagFn == "" && *flagOnly == "" {
		n, bad := e.initOnlyScan(e.spec.InitOnly)
		initOnlyNote = fmt.Sprintf("init-only globals %v and every other package-level variable of the packages under contract: %d functions scanned over go/ssa (no solver), %d writes outside init", e.spec.InitOnly, n, len(bad))
		fmt.Println("  ssa-scan ", initOnlyNote)
		for i, b := range bad {
			report(fmt.Sprintf("init-only#%d: %s", i+1, b), "a package-level table that concurrent readers rely on is written outside package initialisation: "+b, nil)
		}
	}
	// bounded stand-ins on the real code (labelled bounded, never counted as proved)
	var bounded []boundedResult
	if *flagFn == "" && *flagOnly == "" && !*flagNoBound {
		br, bf, berr := runBounded(*flagRepo, *flagVerif, prop, tier, seed)
		bounded = br
		if berr != nil {
			fmt.Println("bounded stand-ins could not run:", berr)
		}
		for _, b := range br {
			fmt.Printf("  bounded   %-40s evaluations=%d distinct=%d failures=%d (%s)\n", b.Name, b.Evaluations, b.Distinct, b.Failures, b.Bound)
		}
		for i, bfail := range bf {
			name := fmt.Sprintf("bounded:%s#%d", bfail.Name, i+1)
			if kf := known.match(prop, "bounded:"+bfail.Name); kf != nil {
				knownLines = append(knownLines, fmt.Sprintf("KNOWN-FINDING: property=%s obligation=bounded:%s %s", prop, bfail.Name, kf.What))
				continue
			}
			violations++
			os.MkdirAll(replayDir, 0o755)
			path := filepath.Join(replayDir, sym(name)+".json")
			data, _ := json.MarshalIndent(map[string]interface{}{"property": prop, "obligation": name, "reason": "bounded stand-in failed on the real code", "failing_input_text": bfail.Text,
				"rerun": "./check " + prop + " (the bounded tests are the files in /verif/bounded/" + prop + "/, run with go test -overlay)"}, "", " ")
			os.WriteFile(path, data, 0o644)
			vioLines = append(vioLines, fmt.Sprintf("VIOLATION property=%s replay=%s obligation=%s", prop, path, name))
		}
	}
	if nObl == 0 && len(missing) == 0 {
		report("no-obligations", "no obligation was generated for this property", nil)
	}
	for _, l := range knownLines {
		fmt.Println(l)
	}
	for _, l := range vioLines {
		fmt.Println(l)
	}
	wall := time.Since(start).Seconds()
	fmt.Printf("property %s tier %s: %d obligations, %d discharged, %d violations, %d known findings (%d obligations set aside), %.1fs\n", prop, tier, nObl, nDis, violations, len(knownLines), nKnownObl, wall)

	if !*flagNoEvid && *flagFn == "" && *flagOnly == "" {
		writeEvidence(e, prop, tier, seed, reports, oreps, nObl, nDis, violations, knownLines, backends, solverMs, wall, vcs, bounded, initOnlyNote)
	}
	if violations > 0 {
		return 1
	}
	return 0
}

func expandSplits(vc *FuncVC, fs *FuncSpec) []*Obligation {
	if len(fs.Splits) == 0 {
		return vc.obls
	}
	// resolve split expressions in the entry environment
	f := vc.topFrame
	env := f.baseEnv(f.entry)
	type sp struct {
		term   string
		lo, hi int64
		text   string
	}
	var sps []sp
	for _, s := range fs.Splits {
		tv, err := env.tr(s.Expr)
		if err != nil {
			vc.errorf("split: %v", err)
			return vc.obls
		}
		sps = append(sps, sp{tv.T, s.Lo, s.Hi, s.Text})
	}
	var out []*Obligation
	for _, o := range vc.obls {
		if o.Probe || o.Kind != "ensures" {
			out = append(out, o)
			continue
		}
		// cases
		var rec func(i int, extra []string, label []string)
		rec = func(i int, extra []string, label []string) {
			if i == len(sps) {
				c := *o
				c.Extra = append([]string{}, extra...)
				c.Case = strings.Join(label, ",")
				out = append(out, &c)
				return
			}
			for v := sps[i].lo; v <= sps[i].hi; v++ {
				rec(i+1, append(extra, S("=", sps[i].term, IntLit64(v))), append(label, fmt.Sprintf("%s=%d", sps[i].text, v)))
			}
		}
		rec(0, nil, nil)
		// coverage: outside all cases
		c := *o
		var outside []string
		for _, s := range sps {
			outside = append(outside, Or(S("<", s.term, IntLit64(s.lo)), S(">", s.term, IntLit64(s.hi))))
		}
		c.Extra = []string{Or(outside...)}
		c.Case = "outside-split"
		out = append(out, &c)
	}
	return out
}

func writeLoadFailure(prop, tier string, seed int, replayDir string, err error, start time.Time) {
	path := writeReplay(replayDir, prop, "load", "the tree does not load: "+err.Error(), nil)
	fmt.Printf("VIOLATION property=%s replay=%s obligation=load no-failing-input-found\n", prop, path)
}

func writeEvidence(e *Engine, prop, tier string, seed int, reports []*fnReport, oreps []oblReport, nObl, nDis, violations int, known []string,
	backends map[string]int, solverMs int64, wall float64, vcs []*FuncVC, bounded []boundedResult, extraNote string) {
	assumedSet := map[string]bool{}
	for _, vc := range vcs {
		for k := range vc.assumed {
			assumedSet[k] = true
		}
	}
	var samples []interface{}
	for i, o := range oreps {
		if i%maxInt(1, len(oreps)/12) == 0 {
			samples = append(samples, map[string]interface{}{"obligation": o.Name, "kind": o.Kind, "status": o.Status, "solver": o.Solver, "ms": o.Millis, "smt_bytes": o.Bytes, "clause": o.Text})
		}
	}
	trusted := []string{
		"govc (this generator): go/ssa semantics, memory model, contract parser",
		"go/packages, go/types, go/ssa (golang.org/x/tools v0.29.0) agree with the Go compiler",
		"z3 5.1.0 (z3-new), cvc5 1.0.x, z3 4.8.12",
	}
	assumptions := []string{
		"slice, string and map lengths are below 2^48 (address-space bound)",
		"sequential semantics; goroutines, channels, reflection and floating point are not modelled",
		"stack depth is not modelled (recursion is checked for termination measures only where a decreases clause is given)",
	}
	for k := range assumedSet {
		assumptions = append(assumptions, "assumed contract on dependency: "+k)
	}
	sort.Strings(assumptions[3:])
	if violations > 0 {
		samples = append(samples, map[string]interface{}{"violations": violations})
	}
	ev := map[string]interface{}{
		"property_id": prop,
		"tier":        tier,
		"seed":        seed,
		"level":       "proof",
		"coverage": map[string]interface{}{
			"obligations":              nObl,
			"discharged":               nDis,
			"checker_cmd":              fmt.Sprintf("/verif/check %s --tier %s", prop, tier),
			"trusted_base":             trusted,
			"samples":                  samples,
			"functions_under_contract": reports,
			"obligation_results":       oreps,
			"backends":                 backends,
			"solver_ms_total":          solverMs,
			"known_findings":           known,
			"contract_files":           e.specFiles,
			"bounded_standins":         bounded,
			"ssa_scans":                extraNote,
			"notes":                    e.notes,
		},
		"assumptions": assumptions,
		"wall_s":      wall,
		"violations":  violations,
	}
	extra := loadPropMeta(prop)
	for k, v := range extra {
		ev["coverage"].(map[string]interface{})[k] = v
	}
	data, _ := json.MarshalIndent(ev, "", " ")
	dir := filepath.Join(*flagVerif, "evidence")
	os.MkdirAll(dir, 0o755)
	os.WriteFile(filepath.Join(dir, prop+".json"), data, 0o644)
}

func maxInt(a, b int) int {
	if a > b {
		return a
	}
	return b
}

// loadPropMeta reads /verif/contracts/meta/<prop>.json: the clauses of the
// property this check does not decide, bounded stand-ins etc. (static text).
func loadPropMeta(prop string) map[string]interface{} {
	data, err := os.ReadFile(filepath.Join(*flagVerif, "contracts", "meta", prop+".json"))
	if err != nil {
		return nil
	}
	var m map[string]interface{}
	if json.Unmarshal(data, &m) != nil {
		return nil
	}
	return m
}

// cmdReplay re-runs the Go test recorded in a replay file against the current tree.
func cmdReplay() int {
	data, err := os.ReadFile(*flagFile)
	if err != nil {
		fmt.Fprintln(os.Stderr, err)
		return 2
	}
	var m struct {
		Obligation string      `json:"obligation"`
		Reason     string      `json:"reason"`
		Replay     string      `json:"replay"`
		Input      *replayFile `json:"failing_input"`
	}
	if err := json.Unmarshal(data, &m); err != nil {
		fmt.Fprintln(os.Stderr, err)
		return 2
	}
	fmt.Println("obligation:", m.Obligation)
	fmt.Println("reason:", m.Reason)
	if m.Input == nil || m.Input.TestSource == "" {
		fmt.Println("no failing input was found for this obligation; solver output is in the replay file")
		fmt.Println(m.Replay)
		return 1
	}
	fmt.Println("inputs:", m.Input.Inputs)
	out, err := runReplayTest(*flagRepo, m.Input)
	fmt.Println(out)
	if err != nil {
		fmt.Println("replay error:", err)
	}
	fmt.Println("recorded verdict:", m.Input.Verdict)
	return 1
}

func sortStrings(s []string) { sort.Strings(s) }

// cmdSweep: zero-annotation run-time-panic sweep. Every function of the
// packages under verification is executed symbolically with all implicit
// checks (nil dereference, bounds, nil-map write, failed type assertion,
// division by zero, explicit panic) as obligations under the function's own
// `requires` only. Prints, per function, how many discharge; a function whose
// obligations all discharge is a candidate for a `safe` contract.
func cmdSweep() int {
	e, err := loadEngine()
	if err != nil {
		fmt.Fprintln(os.Stderr, err)
		return 2
	}
	var keys []string
	for k, fn := range e.fnByName {
		if fn.Pkg == nil || !e.target[fn.Pkg.Pkg] || fn.Blocks == nil || fn.Synthetic != "" {
			continue
		}
		if *flagFn != "" && *flagFn != k {
			continue
		}
		keys = append(keys, k)
	}
	sort.Strings(keys)
	outDir := filepath.Join(*flagVerif, "out", "smt", "_sweep")
	os.RemoveAll(outDir)
	type row struct {
		key        string
		n, ok      int
		unsup, unk int
		errs       int
		failed     []string
	}
	var rows []*row
	rowByKey := map[string]*row{}
	needRecv := map[string]bool{}
	for phase := 0; phase < 2; phase++ {
		var all []*Obligation
		owner := map[*Obligation]*row{}
		for _, k := range keys {
			fn := e.fnByName[k]
			if phase == 1 {
				old := rowByKey[k]
				isPtr := false
				if fn.Signature.Recv() != nil && len(fn.Params) > 0 {
					_, isPtr = fn.Params[0].Type().Underlying().(*types.Pointer)
				}
				if (old.ok == old.n && old.errs == 0) || !isPtr {
					continue
				}
				needRecv[k] = true
			}
			vc := newFuncVC(e, fn)
			vc.sweep = true
			vc.sweepRecv = phase == 1
			vc.outDir = outDir
			if vc.spec == nil {
				vc.spec = &FuncSpec{Name: shortName(k), Pkg: fn.Pkg.Pkg.Name(), Loops: map[int]*LoopSpec{}}
			}
			vc.generate()
			vc.finish()
			r := &row{key: k, unsup: len(vc.unsupported), unk: len(vc.unknownCalls), errs: len(vc.errs)}
			if phase == 0 {
				rows = append(rows, r)
			} else {
				for i := range rows {
					if rows[i].key == k {
						rows[i] = r
					}
				}
			}
			rowByKey[k] = r
			for _, o := range vc.obls {
				if o.Kind == "safety" || o.Kind == "pre" {
					all = append(all, o)
					owner[o] = r
					r.n++
				}
			}
		}
		results := solveAll(all, outDir, 6, *flagWorkers, false)
		for _, res := range results {
			r := owner[res.Obl]
			if res.Status == "proved" {
				r.ok++
			} else {
				r.failed = append(r.failed, res.Obl.Name[strings.Index(res.Obl.Name, "/")+1:]+"="+res.Status)
			}
		}
	}
	nsafe := 0
	for _, r := range rows {
		st := "SAFE"
		if r.ok < r.n || r.errs > 0 {
			st = "open"
		} else {
			nsafe++
		}
		fn := e.fnByName[r.key]
		recv := "-"
		if needRecv[r.key] {
			recv = fn.Params[0].Name()
		}
		inl := "big"
		if (&Frame{vc: &FuncVC{eng: e}}).canInline(fn, nil) {
			inl = "inlineable"
		}
		has := "nospec"
		if sp := e.spec.Funcs[r.key]; sp != nil {
			has = "spec"
			if sp.Safe {
				has = "spec-safe"
			}
			if strings.Contains(sp.File, "_c01_") {
				has = "generated"
			}
		}
		fmt.Printf("%-5s %-60s %3d/%-3d recv=%s %s %s unmodelled=%d unknowncalls=%d %s\n", st, r.key, r.ok, r.n, recv, inl, has, r.unsup, r.unk, strings.Join(r.failed, " "))
	}
	fmt.Printf("functions: %d, all run-time checks discharged: %d\n", len(rows), nsafe)
	os.RemoveAll(outDir)
	return 0
}
