package main

import (
	"fmt"
	"go/token"
	"go/types"
	"os"
	"sort"
	"strings"

	"golang.org/x/tools/go/ssa"
)

const maxInlineDepth = 3

func (vc *FuncVC) newFrame(parent *Frame, fn *ssa.Function, id string) *Frame {
	f := &Frame{vc: vc, parent: parent, fn: fn, id: id,
		vals: map[ssa.Value]string{}, lvals: map[ssa.Value]*LVal{}, tuples: map[ssa.Value][]string{},
		reach: map[*ssa.BasicBlock]string{}, out: map[*ssa.BasicBlock]*State{}, edge: map[[2]*ssa.BasicBlock]string{},
		loops: map[*ssa.BasicBlock]*loopInfo{}, params: map[string]TV{}, debug: map[string][]dbgRef{}, ncall: map[string]int{}}
	if parent != nil {
		f.depth = parent.depth + 1
	}
	f.spec = vc.eng.spec.Funcs[fnKey(fn)]
	return f
}

// rpo returns the blocks in reverse postorder ignoring back edges.
func rpo(fn *ssa.Function) []*ssa.BasicBlock {
	seen := map[*ssa.BasicBlock]bool{}
	var post []*ssa.BasicBlock
	var dfs func(b *ssa.BasicBlock)
	dfs = func(b *ssa.BasicBlock) {
		seen[b] = true
		// successors in reverse: a loop's exit is then finished first, so that in
		// the reversed order the loop body directly follows its head
		for i := len(b.Succs) - 1; i >= 0; i-- {
			if s := b.Succs[i]; !seen[s] {
				dfs(s)
			}
		}
		post = append(post, b)
	}
	dfs(fn.Blocks[0])
	for i, j := 0, len(post)-1; i < j; i, j = i+1, j-1 {
		post[i], post[j] = post[j], post[i]
	}
	return post
}

func (f *Frame) findLoops() {
	fn := f.fn
	var heads []*ssa.BasicBlock
	for _, b := range fn.Blocks {
		for _, s := range b.Succs {
			if s.Dominates(b) {
				li := f.loops[s]
				if li == nil {
					li = &loopInfo{head: s, body: map[*ssa.BasicBlock]bool{s: true}}
					f.loops[s] = li
					heads = append(heads, s)
				}
				li.backs = append(li.backs, b)
				// natural loop body
				var stack []*ssa.BasicBlock
				if !li.body[b] {
					li.body[b] = true
					stack = append(stack, b)
				}
				for len(stack) > 0 {
					x := stack[len(stack)-1]
					stack = stack[:len(stack)-1]
					for _, p := range x.Preds {
						if !li.body[p] {
							li.body[p] = true
							stack = append(stack, p)
						}
					}
				}
			}
		}
	}
	sort.Slice(heads, func(i, j int) bool { return heads[i].Index < heads[j].Index })
	for i, h := range heads {
		li := f.loops[h]
		li.n = i + 1
		li.id = fmt.Sprintf("%sloop%d", f.id, li.n)
		if f.spec != nil {
			li.spec = f.spec.Loops[li.n]
		}
		if strings.HasPrefix(h.Comment, "rangeindex.loop") {
			for _, in := range h.Instrs {
				if p, ok := in.(*ssa.Phi); ok && p.Comment == "rangeindex" {
					li.isRange = p
					break
				}
			}
		}
	}
}

func (f *Frame) collectDebug() {
	for _, b := range f.fn.Blocks {
		for i, in := range b.Instrs {
			if d, ok := in.(*ssa.DebugRef); ok {
				if id, ok := d.Expr.(interface{ String() string }); ok {
					_ = id
				}
				name := ""
				if d.Object() != nil {
					name = d.Object().Name()
					if v, ok := d.Object().(*types.Var); ok && v.IsField() {
						continue // a selector's field, not a variable
					}
				}
				if name == "" {
					continue
				}
				f.debug[name] = append(f.debug[name], dbgRef{d.Object(), b, i, d.X, d.IsAddr})
			}
		}
	}
}

// run executes the function body. args are the parameter terms.
func (f *Frame) run(args []string, entryReach string, entry *State) {
	vc := f.vc
	fn := f.fn
	f.entry = entry
	for i, p := range fn.Params {
		f.vals[p] = args[i]
		f.params[p.Name()] = TV{args[i], p.Type()}
	}
	if f.parent == nil && f.vc.ifaceRecv != nil {
		f.spec = f.vc.spec
	}
	f.findLoops()
	f.collectDebug()
	order := rpo(fn)
	for _, b := range order {
		vc.ssaInstrs += len(b.Instrs)
		// reach and incoming state
		var li = f.loops[b]
		var edges []string
		var preds []*ssa.BasicBlock
		for _, p := range b.Preds {
			if li != nil && li.body[p] && b.Dominates(p) {
				continue // back edge
			}
			if _, ok := f.out[p]; !ok {
				continue // unreachable pred (not in rpo)
			}
			preds = append(preds, p)
			edges = append(edges, f.edge[[2]*ssa.BasicBlock{p, b}])
		}
		var st *State
		var reach string
		if b == fn.Blocks[0] {
			reach = entryReach
			st = entry.clone()
		} else {
			reach = vc.define(f.id+"r_b"+fmt.Sprint(b.Index), "Bool", Or(edges...))
			st = f.mergeStates(preds, edges)
		}
		f.reach[b] = reach
		f.cur = st
		f.curBlock = b
		f.curReach = reach
		// loops we are inside
		f.inLoops = nil
		for _, l := range f.loops {
			if l.body[b] {
				f.inLoops = append(f.inLoops, l)
			}
		}
		// phis (non-loop-head)
		if li != nil {
			f.loopHead(li, preds, edges)
		} else {
			for _, in := range b.Instrs {
				phi, ok := in.(*ssa.Phi)
				if !ok {
					break
				}
				f.vals[phi] = f.phiTerm(phi, preds, edges)
			}
		}
		for i, in := range b.Instrs {
			if _, ok := in.(*ssa.Phi); ok {
				continue
			}
			f.curIdx = i
			f.exec(in)
		}
		f.out[b] = f.cur
	}
	f.flushLoops()
}

func (f *Frame) phiTerm(phi *ssa.Phi, preds []*ssa.BasicBlock, edges []string) string {
	b := phi.Block()
	sortv := f.vc.eng.sortOf(phi.Type())
	if _, isT := phi.Type().(*types.Tuple); isT {
		return f.unknownValue(phi, "phi of tuples")
	}
	var term string
	first := true
	for i := len(preds) - 1; i >= 0; i-- {
		p := preds[i]
		// index of p among b.Preds
		var v ssa.Value
		for j, q := range b.Preds {
			if q == p {
				v = phi.Edges[j]
			}
		}
		if lv, ok := f.lvals[v]; ok && lv != nil {
			return f.unknownValue(phi, "phi of addresses")
		}
		t := f.val(v)
		if first {
			term = t
			first = false
		} else {
			term = Ite(edges[i], t, term)
		}
	}
	if first {
		return f.vc.fresh(f.id+phi.Name(), sortv)
	}
	return f.vc.define(f.id+phi.Name(), sortv, term)
}

func (f *Frame) mergeStates(preds []*ssa.BasicBlock, edges []string) *State {
	if len(preds) == 0 {
		return &State{m: map[string]string{}}
	}
	if len(preds) == 1 {
		return f.out[preds[0]].clone()
	}
	keys := map[string]bool{}
	for _, p := range preds {
		for k := range f.out[p].m {
			keys[k] = true
		}
	}
	var ks []string
	for k := range keys {
		ks = append(ks, k)
	}
	sort.Strings(ks)
	st := &State{m: map[string]string{}}
	for _, k := range ks {
		var term string
		same := true
		first := f.get(f.out[preds[0]], k)
		for _, p := range preds[1:] {
			if f.get(f.out[p], k) != first {
				same = false
			}
		}
		if same {
			st.m[k] = first
			continue
		}
		for i := len(preds) - 1; i >= 0; i-- {
			t := f.get(f.out[preds[i]], k)
			if i == len(preds)-1 {
				term = t
			} else {
				term = Ite(edges[i], t, term)
			}
		}
		st.m[k] = f.vc.defineMerged(k+"@b", f.vc.eng.keySort[k], term)
	}
	return st
}

// ---------------------------------------------------------------------------
// loops

func (f *Frame) loopHead(li *loopInfo, preds []*ssa.BasicBlock, edges []string) {
	vc := f.vc
	b := li.head
	li.entryState = f.cur.clone()
	// 1. invariant on entry
	entryPhis := map[*ssa.Phi]string{}
	for _, in := range b.Instrs {
		phi, ok := in.(*ssa.Phi)
		if !ok {
			break
		}
		entryPhis[phi] = f.phiTerm(phi, preds, edges)
		delete(f.vals, phi)
	}
	li.entryPhis = entryPhis
	if li.spec != nil {
		for i, inv := range li.spec.Invs {
			t := f.loopExpr(li, inv, entryPhis, f.cur, f.cur)
			f.oblige("inv-entry", fmt.Sprintf("loop%d/%s/entry", li.n, clauseName(inv, "inv", i)), t, inv.Text, token.NoPos)
		}
	}
	vc.loopCut = true
	// 2. havoc
	mods := vc.loopMods[li.id]
	var mk []string
	for k := range mods {
		mk = append(mk, k)
	}
	sort.Strings(mk)
	entryState := f.cur.clone()
	li.entryState = entryState
	for _, k := range mk {
		if _, ok := vc.eng.keySort[k]; !ok {
			continue
		}
		nv := vc.fresh(k+"@loop", vc.eng.keySort[k])
		f.cur.m[k] = nv
		if k == "alloc" || strings.HasPrefix(k, "ghost:") {
			vc.assume(S("<=", f.get(entryState, k), nv))
		}
	}
	// conditional frame of the function (unchanged_unless): an automatic loop
	// invariant -- as long as the condition has not come true, every key is
	// still the one the function was entered with (checked on entry because the
	// entry state is what it is, and at every back edge below)
	if c, ok := f.unchangedCond(f.cur); ok {
		for _, k := range mk {
			if _, known := vc.eng.keySort[k]; known && condFrameKey(k) {
				vc.assume(Imp(Not(c), S("=", f.get(f.cur, k), f.get(f.entry, k))))
			}
		}
		if ce, ok := f.unchangedCond(entryState); ok {
			var gs []string
			for _, k := range mk {
				if _, known := vc.eng.keySort[k]; known && condFrameKey(k) {
					gs = append(gs, S("=", f.get(entryState, k), f.get(f.entry, k)))
				}
			}
			if len(gs) > 0 {
				f.oblige("cond-frame", fmt.Sprintf("loop%d/unchanged-unless/entry", li.n), Imp(Not(ce), And(gs...)), "conditional frame holds when the loop is entered", token.NoPos)
			}
		}
	}
	for _, k := range mk {
		if nv, ok := f.cur.m[k]; ok {
			if wf := vc.heapWF(k, nv, f.get(f.cur, vc.allocKey())); wf != "" {
				vc.assume(wf)
			}
		}
	}
	headPhis := map[*ssa.Phi]string{}
	for _, in := range b.Instrs {
		phi, ok := in.(*ssa.Phi)
		if !ok {
			break
		}
		if _, isT := phi.Type().(*types.Tuple); isT {
			f.unknownValue(phi, "phi of tuples")
			continue
		}
		t := vc.fresh(f.id+phi.Name()+"@loop", vc.eng.sortOf(phi.Type()))
		headPhis[phi] = t
		f.vals[phi] = t
		for _, inv := range vc.eng.typeInv(t, phi.Type(), f.get(f.cur, vc.allocKey()), 0) {
			vc.assume(inv)
		}
	}
	li.headPhis = headPhis
	// loop frame from the loop's modifies clause
	li.frameKeys = nil
	li.frameCond = map[string]string{}
	if li.spec != nil && li.spec.HasMod {
		env := f.baseEnv(entryState)
		env.lookup = func(name string) (TV, bool) { return f.lookupVarAt(name, li.head, entryState) }
		targets := f.resolveModifies(li.spec.Modifies, env)
		byKey := map[string][]modTarget{}
		for _, t := range targets {
			byKey[t.key] = append(byKey[t.key], t)
		}
		allocIn := f.get(entryState, vc.allocKey())
		for _, k := range mk {
			if !strings.HasPrefix(vc.eng.keySort[k], "(Array Int") {
				continue
			}
			whole := false
			var excl []string
			for _, t := range byKey[k] {
				if t.idx == "" && t.cond == "" {
					whole = true
				}
				if t.idx != "" {
					excl = append(excl, Not(S("=", "r!m", t.idx)))
				}
				if t.cond != "" {
					excl = append(excl, Not(t.cond))
				}
			}
			if whole {
				continue
			}
			cond := And(append([]string{S("<=", "0", "r!m"), S("<=", "r!m", allocIn)}, excl...)...)
			li.frameKeys = append(li.frameKeys, k)
			li.frameCond[k] = cond
			vc.assume(Imp(f.curReach, fmt.Sprintf("(forall ((r!m Int)) (! (=> %s (= (select %s r!m) (select %s r!m))) :pattern ((select %s r!m))))", cond, f.cur.m[k], f.get(entryState, k), f.cur.m[k])))
		}
	}
	li.headState = f.cur.clone()
	// automatic invariant for range-over-slice index
	if li.isRange != nil {
		if lenv := f.rangeLen(li); lenv != "" {
			p := headPhis[li.isRange]
			vc.assume(Imp(f.curReach, And(S("<=", "(- 1)", p), S("<", p, S("+", lenv, "0")), S("<=", lenv, lenBound))))
		}
	}
	// 3. assume invariants
	if li.spec != nil {
		for _, inv := range li.spec.Invs {
			t := f.loopExpr(li, inv, headPhis, f.cur, f.cur)
			vc.assume(Imp(f.curReach, t))
		}
		if li.spec.Decreases != nil {
			t := f.loopExpr(li, li.spec.Decreases, headPhis, f.cur, f.cur)
			li.measure = vc.define(f.id+"measure", "Int", t)
		}
	}
}

// rangeLen finds the length term compared against in a rangeindex loop head.
func (f *Frame) rangeLen(li *loopInfo) string {
	// pattern: t_inc = phi + 1; t_c = t_inc < len ; if t_c
	for _, in := range li.head.Instrs {
		if bo, ok := in.(*ssa.BinOp); ok && bo.Op == token.LSS {
			if inc, ok := bo.X.(*ssa.BinOp); ok && inc.X == li.isRange {
				// len value must be defined outside the loop
				if v, ok := f.vals[bo.Y]; ok {
					return v
				}
				if _, isC := bo.Y.(*ssa.Const); isC {
					return f.val(bo.Y)
				}
			}
		}
	}
	return ""
}

func clauseName(c *Clause, kind string, i int) string {
	if c.Name != "" {
		return kind + ":" + c.Name
	}
	return fmt.Sprintf("%s#%d", kind, i+1)
}

// backEdge is called when control reaches a jump/if to a loop head from inside.
func (f *Frame) backEdge(li *loopInfo, from *ssa.BasicBlock, cond string) {
	saveReach := f.curReach
	f.curReach = cond
	defer func() { f.curReach = saveReach }()
	phis := map[*ssa.Phi]string{}
	for _, in := range li.head.Instrs {
		phi, ok := in.(*ssa.Phi)
		if !ok {
			break
		}
		for j, q := range li.head.Preds {
			if q == from {
				phis[phi] = f.val(phi.Edges[j])
			}
		}
	}
	if li.spec != nil {
		for i, inv := range li.spec.Invs {
			t := f.loopExpr(li, inv, phis, f.cur, li.headState)
			li.addPending(fmt.Sprintf("loop%d/%s/preserved", li.n, clauseName(inv, "inv", i)), "inv-preserved", Imp(cond, t), inv.Text)
		}
		if li.spec.Decreases != nil {
			t := f.loopExpr(li, li.spec.Decreases, phis, f.cur, li.headState)
			li.addPending(fmt.Sprintf("loop%d/decreases", li.n), "decreases", Imp(cond, And(S("<=", "0", li.measure), S("<", t, li.measure))), li.spec.Decreases.Text)
		}
		for i, be := range li.spec.BodyEns {
			t := f.bodyExpr(li, be, phis, from)
			li.addPending(fmt.Sprintf("loop%d/%s", li.n, clauseName(be, "body", i)), "body-ensures", Imp(cond, t), be.Text)
		}
		// loop frame: the body changes only what the loop's modifies clause lists
		if len(li.frameKeys) > 0 {
			for _, k := range li.frameKeys {
				nv, hv := f.get(f.cur, k), f.get(li.headState, k)
				if nv == hv {
					continue
				}
				goal := fmt.Sprintf("(forall ((r!m Int)) (=> %s (= (select %s r!m) (select %s r!m))))", li.frameCond[k], nv, hv)
				li.addPending(fmt.Sprintf("loop%d/frame:%s", li.n, k), "frame", Imp(cond, goal), "loop body writes only what the loop modifies clause lists ("+k+")")
			}
		}
	}
	if c, ok := f.unchangedCond(f.cur); ok {
		var gs []string
		for k := range f.vc.loopMods[li.id] {
			if _, known := f.vc.eng.keySort[k]; known && condFrameKey(k) {
				gs = append(gs, S("=", f.get(f.cur, k), f.get(f.entry, k)))
			}
		}
		sort.Strings(gs)
		if len(gs) > 0 {
			li.addPending(fmt.Sprintf("loop%d/unchanged-unless/preserved", li.n), "cond-frame", Imp(cond, Imp(Not(c), And(gs...))), "conditional frame is kept by the loop body")
		}
	}
	// vacuity: the assumptions along this iteration (invariants, callee
	// postconditions, frames) must not be contradictory
	if li.spec != nil && (len(li.spec.Invs) > 0 || len(li.spec.BodyEns) > 0) {
		f.probeAt(fmt.Sprintf("loop%d/iteration-vacuity", li.n), cond)
	}
	// once every back edge of the loop has been seen its obligations are
	// complete: emit them here so that their prefix ends with the loop body
	li.seenBacks++
	if li.seenBacks >= len(li.backs) && (li.spec == nil || len(li.spec.BodyRet) == 0) {
		f.flushLoop(li)
	}
}

// exitEdge: control leaves one or more loops along from -> to. The loop's
// exit_ensures clauses are obligations on the edges that leave it from the
// evaluation of its condition (the condition has become false), its break_ensures clauses on the
// edges that leave it from any other of its blocks (break, goto, the way to a
// return). Plain names and heap reads denote the state at the edge, old(...)
// the state at the loop head of the iteration under way.
func (f *Frame) exitEdge(from, to *ssa.BasicBlock, cond string) {
	var ls []*loopInfo
	for _, li := range f.loops {
		if li.spec != nil && li.headState != nil && li.body[from] && !li.body[to] && len(li.spec.ExitEns)+len(li.spec.BreakEns) > 0 {
			ls = append(ls, li)
		}
	}
	sort.Slice(ls, func(i, j int) bool { return ls[i].n < ls[j].n })
	for _, li := range ls {
		cls, kind := li.spec.BreakEns, "break"
		if condBlock(li, from) {
			cls, kind = li.spec.ExitEns, "exit"
		}
		for i, c := range cls {
			t := f.bodyRetExpr(li, c, from, nil)
			li.addPending(fmt.Sprintf("loop%d/%s", li.n, clauseName(c, kind, i)), "loop-"+kind, Imp(cond, t), c.Text)
		}
	}
}

// condBlock: b belongs to the evaluation of the loop condition -- the head, or
// a block reached from such a block only (the right operand of && and ||) that
// computes values and does nothing else.
func condBlock(li *loopInfo, b *ssa.BasicBlock) bool {
	for depth := 0; depth < 16; depth++ {
		if b == li.head {
			return true
		}
		if len(b.Preds) != 1 || !li.body[b.Preds[0]] {
			return false
		}
		for _, in := range b.Instrs {
			switch x := in.(type) {
			case *ssa.BinOp, *ssa.UnOp, *ssa.Phi, *ssa.DebugRef, *ssa.If, *ssa.FieldAddr, *ssa.Field, *ssa.Convert, *ssa.ChangeType:
			case *ssa.Call:
				if _, builtin := x.Call.Value.(*ssa.Builtin); !builtin {
					return false
				}
			default:
				return false
			}
		}
		if _, isIf := b.Instrs[len(b.Instrs)-1].(*ssa.If); !isIf {
			return false
		}
		b = b.Preds[0]
	}
	return false
}

// condFrameKey: state keys a conditional frame (unchanged_unless) speaks about.
func condFrameKey(k string) bool {
	return !(strings.HasPrefix(k, "L:") || strings.HasPrefix(k, "it:") || strings.HasPrefix(k, "lock:") || strings.HasPrefix(k, "ghost:"))
}

// unchangedCond translates the unchanged_unless condition of the function
// under verification with the given state as "now" and the function entry as "old".
func (f *Frame) unchangedCond(st *State) (string, bool) {
	top := f
	for top.parent != nil {
		top = top.parent
	}
	if f.parent != nil || top.spec == nil || top.spec.UnchangedUnless == nil {
		return "", false
	}
	env := f.baseEnv(st)
	tv, err := env.tr(top.spec.UnchangedUnless.Expr)
	if err != nil {
		f.vc.errorf("%s:%d: %v", top.spec.UnchangedUnless.File, top.spec.UnchangedUnless.Line, err)
		return "", false
	}
	return tv.T, true
}

// flushLoop emits the obligations collected so far for one loop.
func (f *Frame) flushLoop(li *loopInfo) {
	save := f.curReach
	f.curReach = "true"
	for _, p := range li.pending {
		f.oblige(p.kind, p.name, And(p.goals...), p.text, token.NoPos)
	}
	li.pending = nil
	f.curReach = save
}

func (li *loopInfo) addPending(name, kind, goal, text string) {
	for _, p := range li.pending {
		if p.name == name && os.Getenv("GOVC_SPLIT_EDGES") == "" {
			p.goals = append(p.goals, goal)
			return
		}
	}
	li.pending = append(li.pending, &pendingObl{name: name, kind: kind, text: text, goals: []string{goal}})
}

// flushLoops emits the back-edge obligations collected for every loop, one
// obligation per clause conjoined over the back edges.
func (f *Frame) flushLoops() {
	var ls []*loopInfo
	for _, li := range f.loops {
		ls = append(ls, li)
	}
	sort.Slice(ls, func(i, j int) bool { return ls[i].n < ls[j].n })
	save := f.curReach
	f.curReach = "true"
	for _, li := range ls {
		for _, p := range li.pending {
			f.oblige(p.kind, p.name, And(p.goals...), p.text, token.NoPos)
		}
		li.pending = nil
	}
	f.curReach = save
}

// bodyExpr translates a per-iteration clause at a back edge: plain names and
// heap reads denote the state at the back edge, old(...) the state at the loop
// head of the same iteration.
func (f *Frame) bodyExpr(li *loopInfo, c *Clause, phis map[*ssa.Phi]string, from *ssa.BasicBlock) string {
	env := f.baseEnv(f.cur)
	env.old = stateHeap{f, li.headState}
	cur := f.cur
	env.lookup = func(name string) (TV, bool) {
		if name == "_k" && li.isRange != nil {
			if t, ok := phis[li.isRange]; ok {
				return TV{S("+", t, "1"), types.Typ[types.Int]}, true
			}
		}
		for phi, t := range phis {
			if phi.Comment == name {
				return TV{t, phi.Type()}, true
			}
		}
		return f.lookupVarFrom(name, from, cur)
	}
	env.lookupOld = func(name string) (TV, bool) {
		if name == "_k" && li.isRange != nil {
			if t, ok := li.headPhis[li.isRange]; ok {
				return TV{S("+", t, "1"), types.Typ[types.Int]}, true
			}
		}
		for phi, t := range li.headPhis {
			if phi.Comment == name {
				return TV{t, phi.Type()}, true
			}
		}
		return f.lookupVarAt(name, li.head, li.headState)
	}
	env.visitedOf = f.visitedFn(li)
	if li.entryState != nil {
		env.loopEntry = stateHeap{f, li.entryState}
	}
	tv, err := env.tr(c.Expr)
	if err != nil {
		f.vc.errorf("%s:%d: %v", c.File, c.Line, err)
		return "true"
	}
	return tv.T
}

// bodyRetExpr translates a body_returns clause at a return inside the loop:
// old(...) is the loop-head state of the iteration, result the returned value.
func (f *Frame) bodyRetExpr(li *loopInfo, c *Clause, from *ssa.BasicBlock, res []string) string {
	env := f.baseEnv(f.cur)
	env.old = stateHeap{f, li.headState}
	cur := f.cur
	env.lookup = func(name string) (TV, bool) { return f.lookupVarFrom(name, from, cur) }
	env.lookupOld = func(name string) (TV, bool) {
		if name == "_k" && li.isRange != nil {
			if t, ok := li.headPhis[li.isRange]; ok {
				return TV{S("+", t, "1"), types.Typ[types.Int]}, true
			}
		}
		for phi, t := range li.headPhis {
			if phi.Comment == name {
				return TV{t, phi.Type()}, true
			}
		}
		return f.lookupVarAt(name, li.head, li.headState)
	}
	rs := f.fn.Signature.Results()
	for i := 0; i < rs.Len() && i < len(res); i++ {
		env.results = append(env.results, TV{res[i], rs.At(i).Type()})
	}
	env.resultNames = resultNames(f.fn)
	tv, err := env.tr(c.Expr)
	if err != nil {
		f.vc.errorf("%s:%d: %v", c.File, c.Line, err)
		return "true"
	}
	return tv.T
}

// loopExpr translates a loop clause with the loop's phis bound to the given terms.
func (f *Frame) loopExpr(li *loopInfo, c *Clause, phis map[*ssa.Phi]string, st *State, old *State) string {
	env := f.baseEnv(st)
	env.old = stateHeap{f, f.entry}
	env.lookup = func(name string) (TV, bool) {
		if name == "_k" && li.isRange != nil {
			if t, ok := phis[li.isRange]; ok {
				return TV{S("+", t, "1"), types.Typ[types.Int]}, true
			}
		}
		// phi at loop head with that name
		for phi, t := range phis {
			if phi.Comment == name {
				return TV{t, phi.Type()}, true
			}
		}
		return f.lookupVarAt(name, li.head, st)
	}
	env.visitedOf = f.visitedFn(li)
	if li.entryState != nil {
		env.loopEntry = stateHeap{f, li.entryState}
		es := li.entryState
		env.lookupEntry = func(name string) (TV, bool) {
			if name == "_k" && li.isRange != nil {
				return TV{"0", types.Typ[types.Int]}, true
			}
			for phi, t := range li.entryPhis {
				if phi.Comment == name {
					return TV{t, phi.Type()}, true
				}
			}
			return f.lookupVarAt(name, li.head, es)
		}
	}
	tv, err := env.tr(c.Expr)
	if err != nil {
		f.vc.errorf("%s:%d: %v", c.File, c.Line, err)
		return "true"
	}
	return tv.T
}

// visitedFn returns the accessor of the ghost visited set of a map-range loop.
func (f *Frame) visitedFn(li *loopInfo) func(h Heap) string {
	for _, in := range li.head.Instrs {
		if nx, ok := in.(*ssa.Next); ok {
			if rg, ok := nx.Iter.(*ssa.Range); ok {
				key := "it:" + f.fnTag() + f.id + rg.Name()
				if _, ok := f.vc.eng.keySort[key]; ok {
					return func(h Heap) string { return h.Get(key) }
				}
			}
		}
	}
	return nil
}

// lookupVarAt resolves a source variable name to its value at the top of block b
// in state st: the nearest dominating reference decides which object is meant
// (shadowing); an address-taken variable is read from its cell.
func (f *Frame) lookupVarAt(name string, b *ssa.BasicBlock, st *State) (TV, bool) {
	return f.lookupVarFrom(name, b.Idom(), st)
}

// lookupVarFrom scans block d (wholly) and then its dominators.
func (f *Frame) lookupVarFrom(name string, d0 *ssa.BasicBlock, st *State) (TV, bool) {
	return f.lookupVarFromIdx(name, d0, -1, st)
}

// lookupVarFromIdx is lookupVarFrom, except that in block d0 only the
// instructions before index idx are scanned (idx < 0: the whole block).
func (f *Frame) lookupVarFromIdx(name string, d0 *ssa.BasicBlock, idx int, st *State) (TV, bool) {
	cellOf := func(obj types.Object) (TV, bool) {
		// a variable that lives in a cell (captured by a closure, or its
		// address taken): go/ssa gives the cell's Alloc the position of the
		// declaring identifier
		if obj != nil && obj.Pos().IsValid() {
			for _, b := range f.fn.Blocks {
				for _, in := range b.Instrs {
					a, ok := in.(*ssa.Alloc)
					if !ok || a.Comment != name || a.Pos() != obj.Pos() {
						continue
					}
					if lv, ok := f.lvals[a]; ok {
						return TV{f.readLV(st, lv), lv.ty}, true
					}
					if t, ok := f.vals[a]; ok {
						pt := a.Type().Underlying().(*types.Pointer)
						return TV{f.loadPtr(st, t, pt.Elem()), pt.Elem()}, true
					}
				}
			}
		}
		for _, r := range f.debug[name] {
			if r.obj != obj || !r.addr {
				continue
			}
			if lv, ok := f.lvals[r.val]; ok {
				return TV{f.readLV(st, lv), lv.ty}, true
			}
			if t, ok := f.vals[r.val]; ok {
				if pt, _ := r.val.Type().Underlying().(*types.Pointer); pt != nil {
					return TV{f.loadPtr(st, t, pt.Elem()), pt.Elem()}, true
				}
			}
		}
		return TV{}, false
	}
	for d := d0; d != nil; d = d.Idom() {
		start := len(d.Instrs) - 1
		if d == d0 && idx >= 0 {
			start = idx - 1
		}
		for i := start; i >= 0; i-- {
			switch in := d.Instrs[i].(type) {
			case *ssa.Phi:
				if in.Comment == name {
					if t, ok := f.vals[in]; ok {
						return TV{t, in.Type()}, true
					}
				}
			case *ssa.DebugRef:
				if fv, isVar := in.Object().(*types.Var); isVar && fv.IsField() {
					continue
				}
				if in.Object() != nil && in.Object().Name() == name {
					if tv, ok := cellOf(in.Object()); ok {
						return tv, true
					}
					if in.IsAddr {
						continue
					}
					if t, ok := f.vals[in.X]; ok {
						return TV{t, in.X.Type()}, true
					}
					if c, ok := in.X.(*ssa.Const); ok {
						return TV{f.constTerm(c), c.Type()}, true
					}
				}
			}
		}
	}
	// parameters: value or cell
	for _, p := range f.fn.Params {
		if p.Name() == name {
			if p.Object() != nil {
				if tv, ok := cellOf(p.Object()); ok {
					return tv, true
				}
			}
			if tv, ok := f.params[name]; ok {
				return tv, true
			}
		}
	}
	if tv, ok := f.freeVar(name, st); ok {
		return tv, true
	}
	// <param>0 denotes the entry value of a parameter that the body reassigns
	if strings.HasSuffix(name, "0") {
		if tv, ok := f.params[name[:len(name)-1]]; ok {
			return tv, true
		}
	}
	return TV{}, false
}

// lookupVarEnd resolves a variable at the end of the function (for ensures with
// named results we use return operands instead; this is for params only).
func (f *Frame) baseEnv(st *State) *TEnv {
	env := &TEnv{vc: f.vc, f: f, pkg: f.fn.Pkg.Pkg.Name(), vars: map[string]TV{}, cur: stateHeap{f, st}, old: stateHeap{f, f.entry}}
	env.lookup = func(name string) (TV, bool) {
		tv, ok := f.params[name]
		return tv, ok
	}
	env.allocOld = f.get(f.entry, f.vc.allocKey())
	return env
}

// ---------------------------------------------------------------------------
// heap helpers

func (f *Frame) allocRef(st *State) string {
	vc := f.vc
	ak := vc.allocKey()
	r := vc.define(f.id+"new", "Int", S("+", f.get(st, ak), "1"))
	f.set(st, ak, r)
	return r
}

// loadPtr reads *p for an ordinary reference p to a value of type t.
func (f *Frame) loadPtr(st *State, p string, t types.Type) string {
	vc := f.vc
	if _, ok := t.Underlying().(*types.Struct); ok {
		fis := vc.eng.structFields(t)
		sn := vc.eng.sortOf(t)
		if len(fis) == 0 {
			return "mk-" + sn
		}
		args := make([]string, len(fis))
		for i := range fis {
			k, _ := vc.fieldKey(t, i)
			args[i] = S("select", f.get(st, k), p)
		}
		return S("mk-"+sn, args...)
	}
	if at, ok := t.Underlying().(*types.Array); ok {
		k := vc.elemKey(at.Elem())
		return S("select", f.get(st, k), p)
	}
	k := vc.cellKey(t)
	return S("select", f.get(st, k), p)
}

func (f *Frame) storePtr(st *State, p string, t types.Type, v string) {
	vc := f.vc
	if _, ok := t.Underlying().(*types.Struct); ok {
		fis := vc.eng.structFields(t)
		for i, fi := range fis {
			k, _ := vc.fieldKey(t, i)
			f.set(st, k, vc.define(k, vc.eng.keySort[k], S("store", f.get(st, k), p, S(fi.Sel, v))))
		}
		return
	}
	if at, ok := t.Underlying().(*types.Array); ok {
		k := vc.elemKey(at.Elem())
		f.set(st, k, vc.define(k, vc.eng.keySort[k], S("store", f.get(st, k), p, v)))
		return
	}
	k := vc.cellKey(t)
	f.set(st, k, vc.define(k, vc.eng.keySort[k], S("store", f.get(st, k), p, v)))
}

// zeroObject initialises the heap cells of a fresh object of type t at ref r.
func (f *Frame) zeroObject(st *State, r string, t types.Type) {
	f.storePtr(st, r, t, f.vc.eng.zero(t))
}

// havocAll replaces every non-local state key by a fresh constant (unknown call).
func (f *Frame) havocAll(st *State, why string) {
	vc := f.vc
	var keys []string
	for k := range vc.universe {
		if strings.HasPrefix(k, "L:") || strings.HasPrefix(k, "it:") || strings.HasPrefix(k, "lock:") {
			continue
		}
		keys = append(keys, k)
	}
	sort.Strings(keys)
	olds := map[string]string{}
	for _, k := range keys {
		old := f.get(st, k)
		olds[k] = old
		nv := vc.fresh(k+"@havoc", vc.eng.keySort[k])
		f.set(st, k, nv)
		if k == "alloc" || strings.HasPrefix(k, "ghost:") {
			vc.assume(S("<=", old, nv))
		}
	}
	for _, k := range keys {
		if wf := vc.heapWF(k, f.get(st, k), f.get(st, vc.allocKey())); wf != "" {
			vc.assume(wf)
		}
	}
	// Objects this function allocated and never let out of its hands (their
	// address is only dereferenced or returned, see privateAlloc) cannot be
	// reached by the unknown callee: their cells keep their contents.
	for fr := f; fr != nil; fr = fr.parent {
		if fr.curBlock == nil {
			continue
		}
		for _, b := range fr.fn.Blocks {
			if !b.Dominates(fr.curBlock) {
				continue
			}
			for _, in := range b.Instrs {
				a, ok := in.(*ssa.Alloc)
				if !ok || !a.Heap {
					continue
				}
				r, done := fr.vals[a]
				if os.Getenv("GOVC_DEBUG_PRIVATE") != "" {
					fmt.Fprintln(os.Stderr, "havoc", why, "alloc", a.Name(), a.Comment, "done", done, "private", privateAlloc(a), "later", fr.privateUntilLater(a))
				}
				if !done || !(privateAlloc(a) || fr.privateUntilLater(a)) {
					continue
				}
				et := a.Type().(*types.Pointer).Elem()
				var oks []string
				if _, isS := et.Underlying().(*types.Struct); isS {
					for i := range vc.eng.structFields(et) {
						k, _ := vc.fieldKey(et, i)
						oks = append(oks, k)
					}
				} else if at, isA := et.Underlying().(*types.Array); isA {
					oks = append(oks, vc.elemKey(at.Elem()))
				} else {
					oks = append(oks, vc.cellKey(et))
				}
				for _, k := range oks {
					if ov, ok := olds[k]; ok {
						vc.assume(S("=", S("select", f.get(st, k), r), S("select", ov, r)))
					}
				}
			}
		}
	}
}

// privateUntilLater: the address produced by a does get out (it is stored or
// passed on), but only by instructions that cannot have run yet when the
// current instruction runs: the current block dominates theirs, they come
// later, and neither sits in a loop (no earlier iteration can have run them).
func (f *Frame) privateUntilLater(a *ssa.Alloc) bool {
	inLoop := func(b *ssa.BasicBlock) bool {
		for _, li := range f.loops {
			if li.body[b] {
				return true
			}
		}
		return false
	}
	cb := f.curBlock
	if cb == nil || inLoop(cb) || inLoop(a.Block()) {
		return false
	}
	reaches := func(from, to *ssa.BasicBlock) bool {
		seen := map[*ssa.BasicBlock]bool{}
		work := append([]*ssa.BasicBlock{}, from.Succs...)
		for len(work) > 0 {
			b := work[len(work)-1]
			work = work[:len(work)-1]
			if seen[b] {
				continue
			}
			seen[b] = true
			if b == to {
				return true
			}
			work = append(work, b.Succs...)
		}
		return false
	}
	later := func(in ssa.Instruction) bool {
		b := in.Block()
		if inLoop(b) {
			return false
		}
		if b == cb {
			for i, x := range b.Instrs {
				if x == in {
					return i > f.curIdx
				}
			}
			return false
		}
		// no path leads from that instruction to the current one
		return !reaches(b, cb)
	}
	var ok func(v ssa.Value, depth int) bool
	ok = func(v ssa.Value, depth int) bool {
		if depth > 6 || v.Referrers() == nil {
			return false
		}
		for _, r := range *v.Referrers() {
			switch x := r.(type) {
			case *ssa.DebugRef:
			case *ssa.UnOp:
				if x.Op != token.MUL {
					return false
				}
			case *ssa.Store:
				if x.Val == v && !later(x) {
					return false
				}
			case *ssa.FieldAddr:
				if x.X != v || !ok(x, depth+1) {
					return false
				}
			case *ssa.IndexAddr:
				if x.X != v || !ok(x, depth+1) {
					return false
				}
			case *ssa.Return:
			default:
				if !later(r) {
					return false
				}
			}
		}
		return true
	}
	return ok(a, 0)
}

// privateAlloc reports whether the address produced by a is only ever
// dereferenced (directly or through field / element addresses) or returned.
func privateAlloc(a *ssa.Alloc) bool {
	var addrOnly func(v ssa.Value, depth int) bool
	addrOnly = func(v ssa.Value, depth int) bool {
		if depth > 6 || v.Referrers() == nil {
			return false
		}
		for _, r := range *v.Referrers() {
			switch x := r.(type) {
			case *ssa.DebugRef:
			case *ssa.UnOp:
				if x.Op != token.MUL {
					return false
				}
			case *ssa.Store:
				if x.Val == v {
					return false
				}
			case *ssa.FieldAddr:
				if x.X != v || !addrOnly(x, depth+1) {
					return false
				}
			case *ssa.IndexAddr:
				if x.X != v || !addrOnly(x, depth+1) {
					return false
				}
			case *ssa.Return:
				if depth > 0 {
					return false
				}
			case *ssa.MakeClosure:
				// captured by a closure that is only deferred or called on the
				// spot in this function: no other callee can reach the cell
				if depth > 0 || x.Referrers() == nil {
					return false
				}
				for _, cr := range *x.Referrers() {
					switch c := cr.(type) {
					case *ssa.DebugRef:
					case *ssa.Defer:
						if c.Call.Value != ssa.Value(x) {
							return false
						}
					case *ssa.Call:
						if c.Call.Value != ssa.Value(x) {
							return false
						}
					default:
						return false
					}
				}
			default:
				return false
			}
		}
		return true
	}
	return addrOnly(a, 0)
}

// assumeTypeInv adds the type invariants of a freshly obtained value.
func (f *Frame) assumeTypeInv(t string, ty types.Type) {
	for _, inv := range f.vc.eng.typeInv(t, ty, f.get(f.cur, f.vc.allocKey()), 0) {
		f.vc.assume(inv)
	}
}

func (f *Frame) nameCount(base string) string {
	f.ncall[base]++
	if f.ncall[base] == 1 {
		return base
	}
	return fmt.Sprintf("%s#%d", base, f.ncall[base])
}

// loopsLeftFromBody lists the loops that block b leaves from inside an
// iteration: walking up b's dominators, the first block of the loop's body met
// is not the loop head (the normal exit of a loop is taken at its head).
func (f *Frame) loopsLeftFromBody(b *ssa.BasicBlock) []*loopInfo {
	var out []*loopInfo
	for _, li := range f.loops {
		if li.body[b] {
			// still inside the loop (a return cannot be, but be safe)
			out = append(out, li)
			continue
		}
		for d := b.Idom(); d != nil; d = d.Idom() {
			if li.body[d] {
				if d != li.head {
					out = append(out, li)
				}
				break
			}
		}
	}
	sort.Slice(out, func(i, j int) bool { return out[i].n < out[j].n })
	return out
}
