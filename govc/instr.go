package main

import (
	"fmt"
	"go/token"
	"go/types"
	"strings"

	"golang.org/x/tools/go/ssa"
)

func (f *Frame) setVal(v ssa.Value, sortv, term string) string {
	t := f.vc.define(f.id+v.Name(), sortv, term)
	f.vals[v] = t
	return t
}

func typeShort(t types.Type) string {
	s := types.TypeString(t, func(p *types.Package) string { return "" })
	return s
}

func (f *Frame) exec(in ssa.Instruction) {
	vc := f.vc
	e := vc.eng
	st := f.cur
	switch x := in.(type) {
	case *ssa.DebugRef:
		return
	case *ssa.Alloc:
		et := x.Type().(*types.Pointer).Elem()
		if !x.Heap {
			key := "L:" + f.fnTag() + f.id + x.Name()
			vc.regKey(key, e.sortOf(et))
			f.lvals[x] = &LVal{key: key, ty: et}
			f.set(st, key, e.zero(et))
			return
		}
		r := f.allocRef(st)
		f.zeroObject(st, r, et)
		f.vals[x] = r
	case *ssa.FieldAddr:
		pt := x.X.Type().Underlying().(*types.Pointer)
		stt := pt.Elem()
		sn := e.sortOf(stt)
		fis := e.structFields(stt)
		if lv, ok := f.lvals[x.X]; ok {
			nl := &LVal{key: lv.key, idx: lv.idx, path: append(append([]pathEl{}, lv.path...), pathEl{isField: true, ssort: sn, fidx: x.Field}), ty: fis[x.Field].Type}
			f.lvals[x] = nl
			return
		}
		p := f.val(x.X)
		f.safety(f.nameCount("nil:"+typeShort(stt)+"."+fis[x.Field].Name), Not(S("=", p, "0")), "nil dereference "+exprText(x), x.Pos())
		k, fi := vc.fieldKey(stt, x.Field)
		f.lvals[x] = &LVal{key: k, idx: []string{p}, ty: fi.Type}
	case *ssa.Field:
		fis := e.structFields(x.X.Type())
		f.setVal(x, fis[x.Field].Sort, S(fis[x.Field].Sel, f.val(x.X)))
	case *ssa.IndexAddr:
		idx := f.val(x.Index)
		switch xt := x.X.Type().Underlying().(type) {
		case *types.Slice:
			s := f.val(x.X)
			f.safety(f.nameCount("index:"+typeShort(x.X.Type())), And(S("<=", "0", idx), S("<", idx, S("s-len", s))), "index out of range "+exprText(x), x.Pos())
			k := vc.elemKey(xt.Elem())
			f.lvals[x] = &LVal{key: k, idx: []string{S("s-arr", s), S("+", S("s-off", s), idx)}, ty: xt.Elem()}
		case *types.Pointer:
			at := xt.Elem().Underlying().(*types.Array)
			f.safety(f.nameCount("index:"+typeShort(xt.Elem())), And(S("<=", "0", idx), S("<", idx, fmt.Sprint(at.Len()))), "index out of range "+exprText(x), x.Pos())
			if lv, ok := f.lvals[x.X]; ok {
				f.lvals[x] = &LVal{key: lv.key, idx: lv.idx, path: append(append([]pathEl{}, lv.path...), pathEl{index: idx}), ty: at.Elem()}
				return
			}
			p := f.val(x.X)
			k := vc.elemKey(at.Elem())
			f.lvals[x] = &LVal{key: k, idx: []string{p, idx}, ty: at.Elem()}
		default:
			f.unknownValue(x, "IndexAddr on "+x.X.Type().String())
		}
	case *ssa.Index:
		idx := f.val(x.Index)
		switch xt := x.X.Type().Underlying().(type) {
		case *types.Array:
			f.safety(f.nameCount("index:"+typeShort(x.X.Type())), And(S("<=", "0", idx), S("<", idx, fmt.Sprint(xt.Len()))), "index out of range", x.Pos())
			f.setVal(x, e.sortOf(x.Type()), S("select", f.val(x.X), idx))
		case *types.Basic: // string
			s := f.val(x.X)
			f.safety(f.nameCount("index:string"), And(S("<=", "0", idx), S("<", idx, S("slen", s))), "index out of range", x.Pos())
			f.setVal(x, "Int", S("sbyte", s, idx))
		default:
			f.unknownValue(x, "Index on "+x.X.Type().String())
		}
	case *ssa.UnOp:
		f.unop(x)
	case *ssa.Store:
		v := f.val(x.Val)
		if lv, ok := f.lvals[x.Addr]; ok {
			if g, isG := f.guardFor(lv); isG {
				f.guardAccess(g, true, "field", x.Pos())
			}
			f.writeLV(st, lv, v)
			return
		}
		if g, ok := x.Addr.(*ssa.Global); ok {
			k := vc.globalKey(g)
			f.set(st, k, vc.define(k, vc.eng.keySort[k], v))
			return
		}
		p := f.val(x.Addr)
		et := x.Addr.Type().Underlying().(*types.Pointer).Elem()
		f.safety(f.nameCount("nil:*"+typeShort(et)), Not(S("=", p, "0")), "nil dereference (store)", x.Pos())
		f.storePtr(st, p, et, v)
	case *ssa.BinOp:
		f.binop(x)
	case *ssa.Convert:
		f.convert(x)
	case *ssa.ChangeType:
		f.vals[x] = f.val(x.X)
	case *ssa.ChangeInterface:
		f.vals[x] = f.val(x.X)
	case *ssa.MakeInterface:
		f.makeInterface(x)
	case *ssa.TypeAssert:
		f.typeAssert(x)
	case *ssa.Extract:
		if tup, ok := f.tuples[x.Tuple]; ok && x.Index < len(tup) {
			f.vals[x] = tup[x.Index]
			return
		}
		t := f.unknownValue(x, "extract from unmodelled tuple")
		f.assumeTypeInv(t, x.Type())
	case *ssa.Call:
		f.call(x, x)
	case *ssa.Go:
		vc.unsupported["go statement"] = true
		f.havocAll(st, "go")
	case *ssa.Defer:
		f.defers = append(f.defers, deferRec{x, f.curReach})
	case *ssa.RunDefers:
		if len(f.defers) > 0 {
			f.runDefers()
		}
	case *ssa.Phi:
		return
	case *ssa.If:
		c := f.val(x.Cond)
		b := x.Block()
		f.edgeTo(b, b.Succs[0], And(f.curReach, c))
		f.edgeTo(b, b.Succs[1], And(f.curReach, Not(c)))
	case *ssa.Jump:
		b := x.Block()
		f.edgeTo(b, b.Succs[0], f.curReach)
	case *ssa.Return:
		var res []string
		for _, r := range x.Results {
			res = append(res, f.val(r))
		}
		f.rets = append(f.rets, retPoint{reach: f.curReach, results: res, state: f.cur.clone(), block: x.Block()})
		// a return from inside a loop body: the loop's body_returns clauses
		for _, li := range f.loopsLeftFromBody(x.Block()) {
			if li.spec == nil || len(li.spec.BodyRet) == 0 || li.headState == nil {
				continue
			}
			for i, br := range li.spec.BodyRet {
				t := f.bodyRetExpr(li, br, x.Block(), res)
				li.addPending(fmt.Sprintf("loop%d/%s", li.n, clauseName(br, "returns", i)), "body-returns", Imp(f.curReach, t), br.Text)
			}
		}
	case *ssa.Panic:
		if f.vc.safe {
			f.oblige("safety", f.nameCount("panic"), "false", "explicit panic reachable", x.Pos())
		}
	case *ssa.MakeMap:
		mt := x.Type().Underlying().(*types.Map)
		kv, kd, kl := vc.mapKeys(mt)
		r := f.allocRef(st)
		ks, vs := e.sortOf(mt.Key()), e.sortOf(mt.Elem())
		f.set(st, kv, vc.define(kv, e.keySort[kv], S("store", f.get(st, kv), r, fmt.Sprintf("((as const (Array %s %s)) %s)", ks, vs, e.zero(mt.Elem())))))
		f.set(st, kd, vc.define(kd, e.keySort[kd], S("store", f.get(st, kd), r, fmt.Sprintf("((as const (Array %s Bool)) false)", ks))))
		f.set(st, kl, vc.define(kl, e.keySort[kl], S("store", f.get(st, kl), r, "0")))
		f.vals[x] = r
	case *ssa.MapUpdate:
		if g, isG := vc.guardVals[x.Map]; isG {
			f.guardAccess(g, true, "map update", x.Pos())
		}
		mt := x.Map.Type().Underlying().(*types.Map)
		kv, kd, kl := vc.mapKeys(mt)
		m := f.val(x.Map)
		k := f.val(x.Key)
		v := f.val(x.Value)
		f.safety(f.nameCount("nilmap:"+typeShort(x.Map.Type())), Not(S("=", m, "0")), "assignment to entry in nil map", x.Pos())
		dom := S("select", f.get(st, kd), m)
		had := vc.define("had", "Bool", S("select", dom, k))
		f.set(st, kl, vc.define(kl, e.keySort[kl], S("store", f.get(st, kl), m, Ite(had, S("select", f.get(st, kl), m), S("+", S("select", f.get(st, kl), m), "1")))))
		f.set(st, kd, vc.define(kd, e.keySort[kd], S("store", f.get(st, kd), m, S("store", dom, k, "true"))))
		f.set(st, kv, vc.define(kv, e.keySort[kv], S("store", f.get(st, kv), m, S("store", S("select", f.get(st, kv), m), k, v))))
	case *ssa.Lookup:
		f.lookup(x)
	case *ssa.MakeSlice:
		stt := x.Type().Underlying().(*types.Slice)
		ln, cp := f.val(x.Len), f.val(x.Cap)
		f.safety(f.nameCount("makeslice"), And(S("<=", "0", ln), S("<=", ln, cp)), "makeslice: len out of range", x.Pos())
		vc.assume(Imp(f.curReach, S("<=", cp, lenBound)))
		r := f.allocRef(st)
		k := vc.elemKey(stt.Elem())
		f.set(st, k, vc.define(k, e.keySort[k], S("store", f.get(st, k), r, fmt.Sprintf("((as const (Array Int %s)) %s)", e.sortOf(stt.Elem()), e.zero(stt.Elem())))))
		f.setVal(x, "Slice", S("mk-slice", r, "0", ln, cp))
	case *ssa.Slice:
		f.sliceOp(x)
	case *ssa.Range:
		f.rangeInit(x)
	case *ssa.Next:
		f.rangeNext(x)
	case *ssa.MakeClosure:
		f.makeClosure(x)
	default:
		vc.unsupported[fmt.Sprintf("instruction %T", in)] = true
		if v, ok := in.(ssa.Value); ok {
			f.unknownValue(v, fmt.Sprintf("instruction %T", in))
		}
		f.havocAll(st, "unsupported")
	}
}

func (f *Frame) edgeTo(from, to *ssa.BasicBlock, cond string) {
	c := f.vc.define(f.id+fmt.Sprintf("e_%d_%d", from.Index, to.Index), "Bool", cond)
	if li := f.loops[to]; li != nil && li.body[from] && to.Dominates(from) {
		f.backEdge(li, from, c)
		return
	}
	f.exitEdge(from, to, c)
	// two edges to the same block (if with identical successors)
	key := [2]*ssa.BasicBlock{from, to}
	if old, ok := f.edge[key]; ok {
		c = Or(old, c)
	}
	f.edge[key] = c
}

func (f *Frame) unop(x *ssa.UnOp) {
	vc := f.vc
	e := vc.eng
	switch x.Op {
	case token.MUL: // load
		if lv, ok := f.lvals[x.X]; ok {
			if g, isG := f.guardFor(lv); isG {
				f.guardAccess(g, false, "field", x.Pos())
				if vc.guardVals == nil {
					vc.guardVals = map[ssa.Value]guardInfo{}
				}
				vc.guardVals[x] = g
			}
			t := f.setVal(x, e.sortOf(x.Type()), f.readLV(f.cur, lv))
			if !strings.HasPrefix(lv.key, "L:") {
				f.assumeTypeInv(t, x.Type())
			}
			return
		}
		if g, ok := x.X.(*ssa.Global); ok {
			k := vc.globalKey(g)
			t := f.setVal(x, e.sortOf(x.Type()), f.get(f.cur, k))
			f.assumeTypeInv(t, x.Type())
			return
		}
		p := f.val(x.X)
		et := x.X.Type().Underlying().(*types.Pointer).Elem()
		f.safety(f.nameCount("nil:*"+typeShort(et)), Not(S("=", p, "0")), "nil dereference (load)", x.Pos())
		t := f.setVal(x, e.sortOf(x.Type()), f.loadPtr(f.cur, p, et))
		f.assumeTypeInv(t, x.Type())
	case token.NOT:
		f.setVal(x, "Bool", Not(f.val(x.X)))
	case token.SUB:
		v := S("-", f.val(x.X))
		f.arith(x, v, "-"+f.operandText(x.X))
	default:
		f.unknownValue(x, "unary "+x.Op.String())
	}
}

// arith finishes an arithmetic result: wrap or (nowrap) oblige + exact.
func (f *Frame) arith(x ssa.Value, exact string, what string) {
	vc := f.vc
	t := x.Type()
	if _, _, ok := intRange(t); !ok {
		f.setVal(x, vc.eng.sortOf(t), exact)
		return
	}
	if vc.nowrap && f.parent == nil && !f.wrapOK(what) {
		ex := vc.define(f.id+x.Name()+"x", "Int", exact)
		f.oblige("nowrap", f.nameCount("nowrap:"+what), inRange(ex, t), "arithmetic result fits "+t.String(), x.(ssa.Instruction).Pos())
		vc.assume(Imp(f.curReach, inRange(ex, t)))
		f.vals[x] = ex
		return
	}
	f.setVal(x, "Int", wrapTo(exact, t))
}

func (f *Frame) wrapOK(what string) bool {
	if f.vc.spec == nil {
		return false
	}
	for _, w := range f.vc.spec.WrapOK {
		if w == what {
			return true
		}
	}
	return false
}

func opName(x *ssa.BinOp) string {
	return x.X.Name() + x.Op.String() + x.Y.Name()
}

func (f *Frame) binop(x *ssa.BinOp) {
	vc := f.vc
	a, b := f.val(x.X), f.val(x.Y)
	xt := x.X.Type()
	isInt := false
	isStr := false
	isFloat := false
	unsigned := false
	if bt, ok := xt.Underlying().(*types.Basic); ok {
		isInt = bt.Info()&types.IsInteger != 0
		isStr = bt.Info()&types.IsString != 0
		isFloat = bt.Info()&types.IsFloat != 0
		unsigned = bt.Info()&types.IsUnsigned != 0
	}
	if isFloat {
		f.unknownValue(x, "floating point")
		return
	}
	what := f.binopText(x)
	switch x.Op {
	case token.ADD:
		if isStr {
			f.setVal(x, "Str", S("scat", a, b))
			return
		}
		if phi, ok := x.X.(*ssa.Phi); ok && phi.Comment == "rangeindex" {
			// hidden index of a range-over-slice loop: bounded by the length, never wraps
			f.setVal(x, "Int", S("+", a, b))
			return
		}
		f.arith(x, S("+", a, b), what)
	case token.SUB:
		f.arith(x, S("-", a, b), what)
	case token.MUL:
		f.arith(x, S("*", a, b), what)
	case token.QUO:
		f.safety(f.nameCount("div0"), Not(S("=", b, "0")), "integer divide by zero", x.Pos())
		if unsigned {
			f.setVal(x, "Int", S("div", a, b))
		} else {
			f.arith(x, S("tdiv", a, b), what)
		}
	case token.REM:
		f.safety(f.nameCount("div0"), Not(S("=", b, "0")), "integer divide by zero", x.Pos())
		if unsigned {
			f.setVal(x, "Int", S("mod", a, b))
		} else {
			f.setVal(x, "Int", S("tmod", a, b))
		}
	case token.EQL, token.NEQ:
		eq := f.equal(a, b, xt, x.Y.Type(), x)
		if x.Op == token.NEQ {
			eq = Not(eq)
		}
		f.setVal(x, "Bool", eq)
	case token.LSS, token.LEQ, token.GTR, token.GEQ:
		if isStr {
			var t string
			switch x.Op {
			case token.LSS:
				t = S("strlt", a, b)
			case token.GTR:
				t = S("strlt", b, a)
			case token.LEQ:
				t = Not(S("strlt", b, a))
			case token.GEQ:
				t = Not(S("strlt", a, b))
			}
			f.setVal(x, "Bool", t)
			return
		}
		if !isInt {
			f.unknownValue(x, "comparison on "+xt.String())
			return
		}
		op := map[token.Token]string{token.LSS: "<", token.LEQ: "<=", token.GTR: ">", token.GEQ: ">="}[x.Op]
		f.setVal(x, "Bool", S(op, a, b))
	case token.AND, token.AND_NOT:
		// only masks with constants of the form 2^k-1
		if c, ok := x.Y.(*ssa.Const); ok && isInt && x.Op == token.AND {
			// x & -2^k (written x & ^(2^k-1)) clears the low k bits
			if m, ok2 := constInt64(c); ok2 && m < 0 && m != -1<<63 && ((-m)&(-m-1)) == 0 {
				f.setVal(x, "Int", S("-", a, S("mod", a, fmt.Sprint(-m))))
				return
			}
		}
		if c, ok := x.Y.(*ssa.Const); ok && isInt {
			if m, ok2 := constInt64(c); ok2 && m > 0 && (m&(m+1)) == 0 {
				p := fmt.Sprint(m + 1)
				if x.Op == token.AND {
					f.setVal(x, "Int", S("mod", a, p))
				} else {
					f.setVal(x, "Int", S("-", a, S("mod", a, p)))
				}
				return
			}
		}
		f.unknownValue(x, "bitwise "+x.Op.String())
	default:
		f.unknownValue(x, "binary "+x.Op.String())
	}
	if isInt {
		_ = vc
	}
}

func (f *Frame) binopText(x *ssa.BinOp) string {
	return f.operandText(x.X) + x.Op.String() + f.operandText(x.Y)
}

func (f *Frame) operandText(v ssa.Value) string { return f.opText(v, 0) }

func (f *Frame) opText(v ssa.Value, depth int) string {
	if depth > 4 {
		return "_"
	}
	switch c := v.(type) {
	case *ssa.Const:
		if c.Value != nil {
			return c.Value.String()
		}
		return "nil"
	case *ssa.Parameter:
		return c.Name()
	case *ssa.FreeVar:
		return c.Name()
	case *ssa.Global:
		return c.Name()
	case *ssa.Phi:
		if c.Comment != "" {
			return c.Comment
		}
	case *ssa.Alloc:
		if c.Comment != "" {
			return c.Comment
		}
	}
	// a debug name
	for name, refs := range f.debug {
		for _, r := range refs {
			if r.val == v && !r.addr {
				return name
			}
		}
	}
	switch c := v.(type) {
	case *ssa.FieldAddr:
		st := c.X.Type().Underlying().(*types.Pointer).Elem().Underlying().(*types.Struct)
		return f.opText(c.X, depth+1) + "." + st.Field(c.Field).Name()
	case *ssa.Field:
		st := c.X.Type().Underlying().(*types.Struct)
		return f.opText(c.X, depth+1) + "." + st.Field(c.Field).Name()
	case *ssa.IndexAddr:
		return f.opText(c.X, depth+1) + "[" + f.opText(c.Index, depth+1) + "]"
	case *ssa.UnOp:
		if c.Op == token.MUL {
			return f.opText(c.X, depth+1)
		}
		return c.Op.String() + f.opText(c.X, depth+1)
	case *ssa.BinOp:
		return "(" + f.opText(c.X, depth+1) + c.Op.String() + f.opText(c.Y, depth+1) + ")"
	case *ssa.Convert:
		return typeShort(c.Type()) + "(" + f.opText(c.X, depth+1) + ")"
	case *ssa.Call:
		if b, ok := c.Call.Value.(*ssa.Builtin); ok && len(c.Call.Args) > 0 {
			return b.Name() + "(" + f.opText(c.Call.Args[0], depth+1) + ")"
		}
		if sc := c.Call.StaticCallee(); sc != nil {
			return sc.Name() + "()"
		}
	case *ssa.Extract:
		return f.opText(c.Tuple, depth+1)
	}
	return "_"
}

func constInt64(c *ssa.Const) (int64, bool) {
	if c.Value == nil {
		return 0, false
	}
	return c.Int64(), true
}

// equal builds the equality of two values of Go type t.
func (f *Frame) equal(a, b string, ta, tb types.Type, at ssa.Value) string {
	switch ta.Underlying().(type) {
	case *types.Interface:
		// comparison against nil constant: tag test
		if a == "(mk-iface 0 0)" {
			return S("=", S("i-tag", b), "0")
		}
		if b == "(mk-iface 0 0)" {
			return S("=", S("i-tag", a), "0")
		}
		return S("=", a, b)
	case *types.Slice:
		if b == "(mk-slice 0 0 0 0)" {
			return S("=", S("s-arr", a), "0")
		}
		if a == "(mk-slice 0 0 0 0)" {
			return S("=", S("s-arr", b), "0")
		}
	}
	return S("=", a, b)
}

func (f *Frame) convert(x *ssa.Convert) {
	vc := f.vc
	from, to := x.X.Type().Underlying(), x.Type().Underlying()
	fb, fok := from.(*types.Basic)
	tb, tok := to.(*types.Basic)
	v := f.val(x.X)
	if fok && tok && fb.Info()&types.IsInteger != 0 && tb.Info()&types.IsInteger != 0 {
		what := fmt.Sprintf("%s(%s)", tb.Name(), f.operandText(x.X))
		f.arith(x, v, what)
		return
	}
	if fok && tok && fb.Info()&types.IsInteger != 0 && tb.Info()&types.IsString != 0 {
		// string(rune)
		t := f.setVal(x, "Str", S("str_of_rune", v))
		vc.usedSpec["!str_of_rune"] = true
		_ = t
		return
	}
	if sl, ok := from.(*types.Slice); ok && tok && tb.Info()&types.IsString != 0 {
		// string([]byte)
		k := vc.elemKey(sl.Elem())
		t := f.vc.fresh(f.id+x.Name(), "Str")
		f.vals[x] = t
		vc.assume(S("=", S("slen", t), S("s-len", v)))
		arr := S("select", f.get(f.cur, k), S("s-arr", v))
		vc.assume(fmt.Sprintf("(forall ((i Int)) (! (=> (and (<= 0 i) (< i (s-len %s))) (= (sbyte %s i) (select %s (+ (s-off %s) i)))) :pattern ((sbyte %s i))))", v, t, arr, v, t))
		return
	}
	if sl, ok := to.(*types.Slice); ok && fok && fb.Info()&types.IsString != 0 {
		// []byte(string)
		r := f.allocRef(f.cur)
		k := vc.elemKey(sl.Elem())
		arr := vc.fresh(f.id+"bytes", "(Array Int Int)")
		vc.assume(fmt.Sprintf("(forall ((i Int)) (! (=> (and (<= 0 i) (< i (slen %s))) (= (select %s i) (sbyte %s i))) :pattern ((select %s i))))", v, arr, v, arr))
		f.set(f.cur, k, vc.define(k, vc.eng.keySort[k], S("store", f.get(f.cur, k), r, arr)))
		f.setVal(x, "Slice", S("mk-slice", r, "0", S("slen", v), S("slen", v)))
		return
	}
	f.unknownValue(x, "conversion "+x.X.Type().String()+" -> "+x.Type().String())
}

func (f *Frame) makeInterface(x *ssa.MakeInterface) {
	vc := f.vc
	e := vc.eng
	xt := x.X.Type()
	tag := e.typeTag(xt)
	v := f.val(x.X)
	srt := e.sortOf(xt)
	switch xt.Underlying().(type) {
	case *types.Pointer, *types.Map, *types.Chan, *types.Signature:
		f.setVal(x, "Iface", S("mk-iface", fmt.Sprint(tag), v))
		return
	}
	// boxed payload
	r := f.allocRef(f.cur)
	k := vc.boxKey(srt)
	f.set(f.cur, k, vc.define(k, e.keySort[k], S("store", f.get(f.cur, k), r, v)))
	f.setVal(x, "Iface", S("mk-iface", fmt.Sprint(tag), r))
}

func (f *Frame) typeAssert(x *ssa.TypeAssert) {
	vc := f.vc
	e := vc.eng
	v := f.val(x.X)
	at := x.AssertedType
	var ok, res string
	if _, isIface := at.Underlying().(*types.Interface); isIface {
		// interface-to-interface: succeeds iff the dynamic type implements it
		okc := vc.fresh(f.id+"implements", "Bool")
		var impl []string
		for tg, ty := range e.tagType {
			if types.Implements(ty, at.Underlying().(*types.Interface)) {
				impl = append(impl, S("=", S("i-tag", v), fmt.Sprint(tg)))
			}
		}
		_ = impl
		vc.assume(Imp(okc, Not(S("=", S("i-tag", v), "0"))))
		if at.Underlying().(*types.Interface).NumMethods() == 0 {
			vc.assume(S("=", okc, Not(S("=", S("i-tag", v), "0"))))
		}
		ok = okc
		res = Ite(okc, v, "(mk-iface 0 0)")
	} else {
		tag := e.typeTag(at)
		ok = S("=", S("i-tag", v), fmt.Sprint(tag))
		switch at.Underlying().(type) {
		case *types.Pointer, *types.Map, *types.Chan, *types.Signature:
			res = Ite(ok, S("i-val", v), "0")
		default:
			k := vc.boxKey(e.sortOf(at))
			res = Ite(ok, S("select", f.get(f.cur, k), S("i-val", v)), e.zero(at))
		}
	}
	if x.CommaOk {
		okn := vc.define(f.id+x.Name()+"ok", "Bool", ok)
		rn := vc.define(f.id+x.Name()+"v", e.sortOf(at), res)
		f.tuples[x] = []string{rn, okn}
		return
	}
	f.safety(f.nameCount("assert:"+typeShort(at)), ok, "interface conversion "+exprText(x), x.Pos())
	t := f.setVal(x, e.sortOf(at), res)
	f.assumeTypeInv(t, at)
}

func (f *Frame) lookup(x *ssa.Lookup) {
	vc := f.vc
	e := vc.eng
	if g, isG := vc.guardVals[x.X]; isG {
		f.guardAccess(g, false, "map lookup", x.Pos())
	}
	switch xt := x.X.Type().Underlying().(type) {
	case *types.Map:
		kv, kd, _ := vc.mapKeys(xt)
		m := f.val(x.X)
		k := f.val(x.Index)
		val := S("select", S("select", f.get(f.cur, kv), m), k) // the nil map (reference 0) is an empty map in every state
		if x.CommaOk {
			ok := S("select", S("select", f.get(f.cur, kd), m), k)
			vn := vc.define(f.id+x.Name()+"v", e.sortOf(xt.Elem()), val)
			on := vc.define(f.id+x.Name()+"ok", "Bool", ok)
			f.tuples[x] = []string{vn, on}
			f.assumeTypeInv(vn, xt.Elem())
			// absent key reads zero
			vc.assume(Imp(Not(on), S("=", vn, e.zero(xt.Elem()))))
			return
		}
		t := f.setVal(x, e.sortOf(xt.Elem()), val)
		f.assumeTypeInv(t, xt.Elem())
		dom := S("select", S("select", f.get(f.cur, kd), m), k)
		vc.assume(Imp(Not(dom), S("=", t, e.zero(xt.Elem()))))
	case *types.Basic:
		s := f.val(x.X)
		idx := f.val(x.Index)
		f.safety(f.nameCount("index:string"), And(S("<=", "0", idx), S("<", idx, S("slen", s))), "string index out of range", x.Pos())
		f.setVal(x, "Int", S("sbyte", s, idx))
	default:
		f.unknownValue(x, "lookup on "+x.X.Type().String())
	}
}

func (f *Frame) sliceOp(x *ssa.Slice) {
	vc := f.vc
	var lo, hi, mx string
	if x.Low != nil {
		lo = f.val(x.Low)
	} else {
		lo = "0"
	}
	switch xt := x.X.Type().Underlying().(type) {
	case *types.Slice:
		s := f.val(x.X)
		if x.High != nil {
			hi = f.val(x.High)
		} else {
			hi = S("s-len", s)
		}
		capv := S("s-cap", s)
		if x.Max != nil {
			mx = f.val(x.Max)
			f.safety(f.nameCount("slice:"+typeShort(x.X.Type())), And(S("<=", "0", lo), S("<=", lo, hi), S("<=", hi, mx), S("<=", mx, capv)), "slice bounds out of range", x.Pos())
			capv = mx
		} else {
			f.safety(f.nameCount("slice:"+typeShort(x.X.Type())), And(S("<=", "0", lo), S("<=", lo, hi), S("<=", hi, capv)), "slice bounds out of range", x.Pos())
		}
		f.setVal(x, "Slice", S("mk-slice", S("s-arr", s), S("+", S("s-off", s), lo), S("-", hi, lo), S("-", capv, lo)))
	case *types.Basic:
		s := f.val(x.X)
		if x.High != nil {
			hi = f.val(x.High)
		} else {
			hi = S("slen", s)
		}
		f.safety(f.nameCount("slice:string"), And(S("<=", "0", lo), S("<=", lo, hi), S("<=", hi, S("slen", s))), "string slice bounds out of range", x.Pos())
		f.setVal(x, "Str", S("ssub", s, lo, hi))
	case *types.Pointer:
		at, ok := xt.Elem().Underlying().(*types.Array)
		if !ok {
			f.unknownValue(x, "slice of pointer")
			return
		}
		if _, isL := f.lvals[x.X]; isL {
			f.unknownValue(x, "slice of local array")
			return
		}
		p := f.val(x.X)
		n := fmt.Sprint(at.Len())
		if x.High != nil {
			hi = f.val(x.High)
		} else {
			hi = n
		}
		f.safety(f.nameCount("slice:array"), And(S("<=", "0", lo), S("<=", lo, hi), S("<=", hi, n)), "slice bounds out of range", x.Pos())
		f.setVal(x, "Slice", S("mk-slice", p, lo, S("-", hi, lo), S("-", n, lo)))
	default:
		f.unknownValue(x, "slice of "+x.X.Type().String())
	}
	_ = vc
}

// ---------------------------------------------------------------------------
// map range: nondeterministic iterator with ghost visited set

func (f *Frame) rangeInit(x *ssa.Range) {
	vc := f.vc
	if bt, isB := x.X.Type().Underlying().(*types.Basic); isB && bt.Info()&types.IsString != 0 {
		// range over a string: the iterator is the string and a byte position (ghost key, Int)
		key := "it:" + f.fnTag() + f.id + x.Name()
		vc.regKey(key, "Int")
		f.set(f.cur, key, "0")
		f.vals[x] = f.val(x.X)
		return
	}
	mt, ok := x.X.Type().Underlying().(*types.Map)
	if !ok {
		f.unknownValue(x, "range over "+x.X.Type().String())
		return
	}
	if g, isG := vc.guardVals[x.X]; isG {
		f.guardAccess(g, false, "map range", x.Pos())
	}
	ks := vc.eng.sortOf(mt.Key())
	key := "it:" + f.fnTag() + f.id + x.Name()
	vc.regKey(key, fmt.Sprintf("(Array %s Bool)", ks))
	f.set(f.cur, key, fmt.Sprintf("((as const (Array %s Bool)) false)", ks))
	f.vals[x] = f.val(x.X)
}

func (f *Frame) rangeNext(x *ssa.Next) {
	vc := f.vc
	e := vc.eng
	rg, ok := x.Iter.(*ssa.Range)
	if ok && x.IsString {
		if f.stringNext(x, rg) {
			return
		}
	}
	if !ok || x.IsString {
		f.unknownTuple(x, "next over string")
		return
	}
	mt, ok := rg.X.Type().Underlying().(*types.Map)
	if !ok {
		f.unknownTuple(x, "next over non-map")
		return
	}
	kv, kd, _ := vc.mapKeys(mt)
	key := "it:" + f.fnTag() + f.id + rg.Name()
	m := f.vals[rg]
	okc := vc.fresh(f.id+x.Name()+"ok", "Bool")
	kc := vc.fresh(f.id+x.Name()+"k", e.sortOf(mt.Key()))
	vcst := vc.fresh(f.id+x.Name()+"v", e.sortOf(mt.Elem()))
	visited := f.get(f.cur, key)
	dom := S("select", f.get(f.cur, kd), m)
	vc.assume(Imp(okc, And(Not(S("=", m, "0")), S("select", dom, kc), Not(S("select", visited, kc)),
		S("=", vcst, S("select", S("select", f.get(f.cur, kv), m), kc)))))
	ks := e.sortOf(mt.Key())
	vc.assume(Imp(And(Not(okc), Not(S("=", m, "0"))), fmt.Sprintf("(forall ((k!q %s)) (! (=> (select %s k!q) (select %s k!q)) :pattern ((select %s k!q))))", ks, dom, visited, dom)))
	f.set(f.cur, key, vc.define(key, e.keySort[key], Ite(okc, S("store", visited, kc, "true"), visited)))
	f.tuples[x] = []string{okc, kc, vcst}
	f.assumeTypeInv(kc, mt.Key())
	f.assumeTypeInv(vcst, mt.Elem())
}

// stringNext: one step of a range over a string. The character at the current
// byte position is what utf8.DecodeRuneInString says about the rest of the
// string (the abstract functions decRune / decWidth of the assumed contract,
// with the same facts: width 1..4 within the string, ASCII decodes to itself);
// the position advances by that width. rangepos() names the position in loop
// clauses.
func (f *Frame) stringNext(x *ssa.Next, rg *ssa.Range) bool {
	vc := f.vc
	var dr, dw *SpecFn
	for _, sf := range vc.eng.spec.Specs {
		switch sf.Name {
		case "decRune":
			dr = sf
		case "decWidth":
			dw = sf
		}
	}
	if dr == nil || dw == nil {
		return false
	}
	if _, err := vc.compileSpecFn(dr); err != nil {
		return false
	}
	if _, err := vc.compileSpecFn(dw); err != nil {
		return false
	}
	key := "it:" + f.fnTag() + f.id + rg.Name()
	s := f.vals[rg]
	pos := f.get(f.cur, key)
	rest := S("ssub", s, pos, S("slen", s))
	okc := vc.define(f.id+x.Name()+"ok", "Bool", S("<", pos, S("slen", s)))
	w := vc.define(f.id+x.Name()+"w", "Int", S("sf!decWidth", rest))
	r := vc.define(f.id+x.Name()+"r", "Int", S("sf!decRune", rest))
	vc.assume(And(S("<=", "0", pos), S("<=", pos, S("slen", s))))
	vc.assume(Imp(okc, And(S("<=", "1", w), S("<=", w, "4"), S("<=", S("+", pos, w), S("slen", s)), S("<=", "0", r), S("<=", r, "1114111"))))
	vc.assume(Imp(And(okc, S("<", S("sbyte", s, pos), "128")), And(S("=", r, S("sbyte", s, pos)), S("=", w, "1"))))
	vc.assume(Imp(And(okc, S(">=", S("sbyte", s, pos), "128")), S(">=", r, "128")))
	f.set(f.cur, key, vc.define(key, "Int", Ite(okc, S("+", pos, w), pos)))
	f.tuples[x] = []string{okc, pos, r}
	return true
}

func (f *Frame) unknownTuple(x ssa.Value, why string) {
	f.vc.unsupported[why] = true
	tt, ok := x.Type().(*types.Tuple)
	if !ok {
		f.unknownValue(x, why)
		return
	}
	var ts []string
	for i := 0; i < tt.Len(); i++ {
		t := f.vc.fresh(f.id+x.Name()+"_"+fmt.Sprint(i), f.vc.eng.sortOf(tt.At(i).Type()))
		for _, inv := range f.vc.eng.typeInv(t, tt.At(i).Type(), f.get(f.cur, f.vc.allocKey()), 0) {
			f.vc.assume(inv)
		}
		ts = append(ts, t)
	}
	f.tuples[x] = ts
}

func (f *Frame) makeClosure(x *ssa.MakeClosure) {
	// closure value: opaque reference; bindings remembered for direct calls
	r := f.allocRef(f.cur)
	f.vals[x] = r
}

func (f *Frame) runDefers() {
	// deferred calls run as unknown or contract calls, last first
	for i := len(f.defers) - 1; i >= 0; i-- {
		d := f.defers[i]
		save := f.curReach
		// effects are applied under the defer's own reachability by merging states
		before := f.cur.clone()
		f.call(d.call, nil)
		if d.reach != save && d.reach != "true" {
			// merge: if the defer was not registered on this path, keep the old state
			for k, v := range f.cur.m {
				ov := f.get(before, k)
				if ov != v {
					f.cur.m[k] = f.vc.define(k+"@defer", f.vc.eng.keySort[k], Ite(d.reach, v, ov))
				}
			}
		}
		f.curReach = save
	}
}
