#!/usr/bin/env python3
"""Must-fail self-test: every mutant in mutants.json is a deliberate
property-breaking edit of the repository. Each is applied to a scratch copy of
/repo under a temporary directory (removed afterwards), the check of its
property is run against the copy, and the run must exit 1 naming the expected
obligation. A mutant that still verifies is a hole in a contract.

usage: run.py [--prop Cxx] [--id name] [-j N]
"""
import json, os, shutil, subprocess, sys, tempfile, argparse
from concurrent.futures import ThreadPoolExecutor

VERIF = os.path.dirname(os.path.dirname(os.path.abspath(__file__)))
REPO = "/repo"

def run_mutant(m, tmp):
    d = os.path.join(tmp, m["id"])
    shutil.copytree(REPO, d, ignore=shutil.ignore_patterns(".git"))
    path = os.path.join(d, m["file"])
    src = open(path).read()
    if src.count(m["old"]) != 1:
        shutil.rmtree(d, ignore_errors=True)
        return m, "STALE", "pattern occurs %d times" % src.count(m["old"])
    open(path, "w").write(src.replace(m["old"], m["new"]))
    env = dict(os.environ, GOFLAGS="-mod=mod", GOPROXY="off", GOSUMDB="off", GOTOOLCHAIN="local")
    cmd = [os.path.join(VERIF, "bin", "govc"), "check", "-repo", d, "-prop", m["prop"], "-noevidence", "-noreplay",
           "-out", os.path.join(tmp, "smt-" + m["id"]), "-replaydir", os.path.join(tmp, "rep-" + m["id"]), "-timeout", str(m.get("timeout", 10))]
    p = subprocess.run(cmd, capture_output=True, text=True, env=env)
    out = p.stdout + p.stderr
    shutil.rmtree(d, ignore_errors=True)
    shutil.rmtree(os.path.join(tmp, "smt-" + m["id"]), ignore_errors=True)
    shutil.rmtree(os.path.join(tmp, "rep-" + m["id"]), ignore_errors=True)
    vio = [l for l in out.splitlines() if l.startswith("VIOLATION")]
    if p.returncode != 1 or not vio:
        return m, "SURVIVED", out[-400:]
    exp = m.get("expect", "")
    if exp and not any(exp in l for l in vio):
        return m, "KILLED-OTHER", "; ".join(l.split("obligation=")[-1] for l in vio)[:300]
    return m, "KILLED", "; ".join(l.split("obligation=")[-1] for l in vio)[:200]

def main():
    ap = argparse.ArgumentParser()
    ap.add_argument("--prop"); ap.add_argument("--id"); ap.add_argument("-j", type=int, default=6)
    ap.add_argument("--json", help="also write a summary (for the evidence file of a thorough run) to this path")
    a = ap.parse_args()
    muts = json.load(open(os.path.join(VERIF, "selftest", "mutants.json")))
    if a.prop: muts = [m for m in muts if m["prop"] == a.prop]
    if a.id: muts = [m for m in muts if m["id"] == a.id]
    subprocess.run([os.path.join(VERIF, "build.sh")], check=True, stdout=subprocess.DEVNULL)
    tmp = tempfile.mkdtemp(prefix="govc-selftest-")
    bad = 0
    rows = []
    try:
        with ThreadPoolExecutor(a.j) as ex:
            for m, status, info in ex.map(lambda m: run_mutant(m, tmp), muts):
                print("%-12s %-4s %-34s %s" % (status, m["prop"], m["id"], info.replace("\n", " ")[:220]))
                rows.append({"mutant": m["id"], "file": m["file"], "status": status, "failed_obligations": info[:300] if status.startswith("KILLED") else ""})
                if status in ("SURVIVED", "STALE"): bad += 1
    finally:
        shutil.rmtree(tmp, ignore_errors=True)
    print("mutants: %d, not killed: %d" % (len(muts), bad))
    if a.json:
        json.dump({"what": "must-fail self-test: deliberate property-breaking edits of /repo, each applied to a scratch copy; the check must exit 1",
                   "mutants": len(muts), "killed": len(muts) - bad, "not_killed": [r["mutant"] for r in rows if r["status"] in ("SURVIVED", "STALE")], "results": rows},
                  open(a.json, "w"), indent=1)
    sys.exit(1 if bad else 0)

main()
