#!/bin/bash
# Builds bin/govc from govc/*.go offline (golang.org/x/tools v0.29.0 from the module cache).
set -eu
cd "$(dirname "$0")"
export GOFLAGS=-mod=mod GOPROXY=off GOSUMDB=off GOTOOLCHAIN=local
mkdir -p bin
need=0
[ -x bin/govc ] || need=1
if [ $need = 0 ]; then
  for f in govc/*.go govc/go.mod; do [ "$f" -nt bin/govc ] && need=1; done
fi
if [ $need = 1 ]; then
  (cd govc && go build -o ../bin/govc .)
  echo built
fi
