; Number.Less vs exact arithmetic; math Int encoding with uint64 wrap, P10 as ite-table
(set-option :timeout 60000)
(define-fun W64 ((x Int)) Int (mod x 18446744073709551616))
(define-fun P10 ((e Int)) Int
 (ite (= e 0) 1 (ite (= e 1) 10 (ite (= e 2) 100 (ite (= e 3) 1000 (ite (= e 4) 10000 (ite (= e 5) 100000
 (ite (= e 6) 1000000 (ite (= e 7) 10000000 (ite (= e 8) 100000000 (ite (= e 9) 1000000000 (ite (= e 10) 10000000000
 (ite (= e 11) 100000000000 (ite (= e 12) 1000000000000 (ite (= e 13) 10000000000000 (ite (= e 14) 100000000000000
 (ite (= e 15) 1000000000000000 (ite (= e 16) 10000000000000000 (ite (= e 17) 100000000000000000 (ite (= e 18) 1000000000000000000
 (ite (= e 19) 10000000000000000000 0)))))))))))))))))))))
(declare-const nv Int) (declare-const nf Int) (declare-const nn Bool)
(declare-const mv Int) (declare-const mf Int) (declare-const mn Bool)
(assert (and (<= 0 nv) (< nv 18446744073709551616) (<= 0 mv) (< mv 18446744073709551616)))
(assert (and (<= 0 nf) (<= nf 18) (<= 0 mf) (<= mf 18)))
; callee contracts: Trunc = v div P10(f); frac = W64(W64(v - W64(trunc*P10 f)) * P10(18-f))
(define-fun trunc ((v Int) (f Int)) Int (div v (P10 f)))
(define-fun frac ((v Int) (f Int)) Int (W64 (* (W64 (- v (W64 (* (trunc v f) (P10 f))))) (P10 (- 18 f)))))
(define-fun val18 ((v Int) (f Int) (n Bool)) Int (* (ite n (- 1) 1) (* v (P10 (- 18 f)))))
(define-fun lessimpl () Bool
  (ite (and nn (not mn)) true
  (ite (and (not nn) mn) false
   (let ((nt (trunc nv nf)) (mt (trunc mv mf)))
    (let ((lt0 (< nt mt)))
      (ite (= nt mt)
         (let ((nfr (frac nv nf)) (mfr (frac mv mf)))
            (ite (= nfr mfr) false
               (let ((lt (< nfr mfr))) (ite nn (not lt) lt))))
         (ite nn (not lt0) lt0)))))))
; exclude negative zero for now
(assert (not (and nn (= nv 0))))
(assert (not (and mn (= mv 0))))
(assert (not (= lessimpl (< (val18 nv nf nn) (val18 mv mf mn)))))
(check-sat)
(get-model)
