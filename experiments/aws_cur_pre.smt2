(declare-const L (Array Int Int)) (declare-const n Int) (declare-const prefix Int) (declare-const underlay Int)
(define-fun-rec cb ((m Int) (i Int)) Int
  (ite (>= i n) 0
   (let ((sep (ite (> i 0) prefix 0)))
    (ite (<= m sep) 0
      (ite (<= (- m sep) (select L i)) (- m sep)
          (+ (select L i) (cb (- (- m sep) (select L i)) (+ i 1))))))))
(assert (forall ((i Int)) (>= (select L i) 0)))
(assert (and (> prefix 0) (>= underlay 0) (>= n 0)))
(assert (= (select L 0) 0))
(assert (forall ((i Int)) (=> (> i 0) (> (select L i) 0))))
; loop head state (havoc) + invariant
(declare-const k Int) (declare-const actual Int) (declare-const remain Int)
(assert (and (<= 0 k) (<= k n)))
; current-code invariant candidate: actual + cb(remain, k) == cb(underlay, 0)   (remain counts from the separator before element k)
(assert (= (+ actual (cb remain k)) (cb underlay 0)))
(assert (>= remain 0))
(assert (< k n))
(define-fun len () Int (select L k))
(define-fun addition () Int (- remain prefix))
; obligations: every exit returns cb(underlay,0); back edge re-establishes invariant
(assert (not
  (ite (= len 0)
       (= (+ actual (cb remain (+ k 1))) (cb underlay 0))                           ; continue
       (ite (<= addition 0) (= actual (cb underlay 0))                               ; return actual
       (ite (<= addition len) (= (+ actual addition) (cb underlay 0))                ; return actual+addition
            (and (= (+ (+ actual len) (cb (- remain (+ prefix len)) (+ k 1))) (cb underlay 0)) (>= (- remain (+ prefix len)) 0)))))))
(check-sat)
