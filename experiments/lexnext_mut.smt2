; lexer.next preserves the cursor invariant (line/col are the true position), with assumed UTF-8 decode contract
(declare-const inp (Array Int Int)) (declare-const n Int)
(assert (forall ((i Int)) (and (<= 0 (select inp i)) (<= (select inp i) 255))))
(define-fun-rec nl ((p Int)) Int (ite (<= p 0) 0 (+ (nl (- p 1)) (ite (= (select inp (- p 1)) 10) 1 0))))
(declare-fun width (Int) Int)     ; decode width at byte position p
(declare-fun rune (Int) Int)      ; decoded rune at p
(declare-fun aligned (Int) Bool)
(declare-fun cols (Int) Int)
; assumed contract of utf8.DecodeRuneInString on inp[p:], 0 <= p < n
(assert (forall ((p Int)) (! (=> (and (<= 0 p) (< p n))
   (and (<= 1 (width p)) (<= (width p) 4) (<= (+ p (width p)) n)
        (=> (< (select inp p) 128) (and (= (width p) 1) (= (rune p) (select inp p))))
        (=> (>= (select inp p) 128) (>= (rune p) 128))
        (forall ((j Int)) (=> (and (< p j) (< j (+ p (width p)))) (>= (select inp j) 128)))))
   :pattern ((width p)))))
; spec of column counting along decode steps
(assert (aligned 0)) (assert (= (cols 0) 0))
(assert (forall ((p Int)) (! (=> (and (<= 0 p) (< p n) (aligned p))
   (and (aligned (+ p (width p)))
        (= (cols (+ p (width p))) (ite (= (rune p) 10) 0 (+ (cols p) 1)))))
   :pattern ((width p)))))
; lemma (to be proved by induction separately): nl is additive over a run of non-newline bytes
(assert (forall ((a Int) (b Int)) (! (=> (and (<= 0 a) (<= a b) (forall ((j Int)) (=> (and (<= a j) (< j b)) (not (= (select inp j) 10))))) (= (nl b) (nl a)))
   :pattern ((nl a) (nl b)))))
; state before
(declare-const pos Int) (declare-const line Int) (declare-const col Int)
(assert (and (<= 0 pos) (<= pos n) (aligned pos) (= line (+ 1 (nl pos))) (= col (cols pos))))
; body of next() on the non-eof path
(assert (< pos n))
(define-fun w () Int (width pos)) (define-fun r () Int (rune pos))
(define-fun pos2 () Int (+ pos w))
(define-fun line2 () Int (ite (= r 10) (+ line 1) line))
(define-fun col2 () Int (ite (= r 10) 0 (ite (= r 9) col (+ col 1))))   ; tab and default both col++
(assert (not (and (aligned pos2) (= line2 (+ 1 (nl pos2))) (= col2 (cols pos2)) (<= pos2 n))))
(check-sat)
