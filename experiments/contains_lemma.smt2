(declare-datatypes ((Rng 0)) (((mk (lo Int) (hi Int)))))
(define-fun inr ((x Int) (r Rng)) Bool (and (<= (lo r) x) (<= x (hi r))))
(define-fun-rec mem ((x Int) (a (Array Int Rng)) (j Int)) Bool
  (and (> j 0) (or (mem x a (- j 1)) (inr x (select a (- j 1))))))
(declare-const x Int) (declare-const a (Array Int Rng)) (declare-const i Int) (declare-const n Int)
; induction hypothesis at n, prove at n+1
(assert (=> (and (<= 0 i) (< i n) (inr x (select a i))) (mem x a n)))
(assert (>= n 0))
(assert (not (=> (and (<= 0 i) (< i (+ n 1)) (inr x (select a i))) (mem x a (+ n 1)))))
(check-sat)
