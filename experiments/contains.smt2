(declare-datatypes ((Rng 0)) (((mk (lo Int) (hi Int)))))
(define-fun inr ((x Int) (r Rng)) Bool (and (<= (lo r) x) (<= x (hi r))))
(define-fun-rec mem ((x Int) (a (Array Int Rng)) (j Int)) Bool
  (and (> j 0) (or (mem x a (- j 1)) (inr x (select a (- j 1))))))
(declare-const r (Array Int Rng)) (declare-const nr Int)
(declare-const s (Array Int Rng)) (declare-const ns Int)
(assert (and (> nr 0) (> ns 0)))
; lemma (by induction on n, proved separately): an element of part i < n is a member of the first n parts
(assert (forall ((x Int) (a (Array Int Rng)) (i Int) (n Int)) (! (=> (and (<= 0 i) (< i n) (inr x (select a i))) (mem x a n)) :pattern ((inr x (select a i)) (mem x a n)))))
; outer loop head (havoc) : j parts of s done
(declare-const j Int) (declare-const ri Int)
(assert (and (<= 0 j) (< j ns) (<= 0 ri) (< ri nr)))
(assert (forall ((x Int)) (=> (mem x s j) (mem x r nr))))
; inner loop exit state ri2 (havoc under inner invariant 0 <= ri2 < nr), body falls through both tests
(declare-const ri2 Int)
(assert (and (<= ri ri2) (< ri2 nr)))
(define-fun ss () Rng (select s j))
(assert (not (< (lo ss) (lo (select r ri2)))))     ; !ss.Min.Less(r[ri].Min)
(assert (not (< (hi (select r ri2)) (hi ss))))     ; !r[ri].Max.Less(ss.Max)
; goal: outer invariant at j+1
(assert (not (forall ((x Int)) (=> (mem x s (+ j 1)) (mem x r nr)))))
(check-sat)
