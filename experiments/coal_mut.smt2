; coalesce loop-body preservation, membership by define-fun-rec, invariant quantified over x
(set-option :timeout 30000)
(declare-datatypes ((Rng 0)) (((mk (lo Int) (hi Int)))))
(define-fun inr ((x Int) (r Rng)) Bool (and (<= (lo r) x) (<= x (hi r))))
(define-fun-rec mem ((x Int) (a (Array Int Rng)) (j Int)) Bool
  (and (> j 0) (or (mem x a (- j 1)) (inr x (select a (- j 1))))))
(declare-const r (Array Int Rng)) (declare-const n Int)
(declare-const cr (Array Int Rng)) (declare-const i Int) (declare-const k Int)
; preconditions
(assert (>= n 2))
(assert (forall ((a Int)) (=> (and (<= 0 a) (< a n)) (<= (lo (select r a)) (hi (select r a))))))
(assert (forall ((a Int) (b Int)) (=> (and (<= 0 a) (< a b) (< b n)) (<= (lo (select r a)) (lo (select r b))))))
; invariant at head
(assert (and (<= 0 i) (< i k) (<= 1 k) (< k n)))
(assert (forall ((x Int)) (= (or (mem x cr i) (inr x (select cr i))) (mem x r k))))
(assert (forall ((j Int)) (=> (and (<= 0 j) (< j i)) (< (+ (hi (select cr j)) 1) (lo (select cr (+ j 1)))))))
(assert (forall ((j Int)) (=> (and (<= 0 j) (<= j i)) (<= (lo (select cr j)) (hi (select cr j))))))
(assert (forall ((j Int)) (=> (and (<= k j) (< j n)) (<= (lo (select cr i)) (lo (select r j))))))
; frame lemma for mem (to be proven separately by induction)
(assert (forall ((x Int) (a (Array Int Rng)) (b (Array Int Rng)) (j Int))
   (! (=> (forall ((t Int)) (=> (and (<= 0 t) (< t j)) (= (select a t) (select b t)))) (= (mem x a j) (mem x b j)))
    :pattern ((mem x a j) (mem x b j)))))
(define-fun r1 () Rng (select r k))
; body (no-wrap case): branch A: cr[i].hi + 1 < r1.lo -> i2 = i+1, cr2 = store cr i2 r1
(declare-const cr2 (Array Int Rng)) (declare-const i2 Int)
(assert (ite (< (hi (select cr i)) (lo r1))
   (and (= i2 (+ i 1)) (= cr2 (store cr i2 r1)))
   (ite (< (hi (select cr i)) (hi r1))
      (and (= i2 i) (= cr2 (store cr i (mk (lo (select cr i)) (hi r1)))))
      (and (= i2 i) (= cr2 cr)))))
; goal: invariant at k+1
(assert (not (and
  (forall ((x Int)) (= (or (mem x cr2 i2) (inr x (select cr2 i2))) (mem x r (+ k 1))))
  (forall ((j Int)) (=> (and (<= 0 j) (< j i2)) (< (+ (hi (select cr2 j)) 1) (lo (select cr2 (+ j 1))))))
  (forall ((j Int)) (=> (and (<= 0 j) (<= j i2)) (<= (lo (select cr2 j)) (hi (select cr2 j)))))
  (forall ((j Int)) (=> (and (<= (+ k 1) j) (< j n)) (<= (lo (select cr2 i2)) (lo (select r j)))))
)))
(check-sat)
