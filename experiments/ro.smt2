; Entry.ReadOnly against recursive spec over heap field arrays
(declare-sort Ref 0)
(declare-const nil Ref)
(declare-const H_Parent (Array Ref Ref))
(declare-const H_Kind (Array Ref Int))
(declare-const H_Config (Array Ref Int))
(declare-fun depth (Ref) Int)
; spec from the property: nearest explicit config on path says false, or inside output
(define-fun-rec ro ((hp (Array Ref Ref)) (hk (Array Ref Int)) (hc (Array Ref Int)) (e Ref)) Bool
  (ite (= e nil) false
  (ite (= (select hk e) 8) true
  (ite (= (select hc e) 0) (ro hp hk hc (select hp e))
       (= (select hc e) 2)))))
(declare-const e Ref)
; well-formedness: config is a TriState value
(assert (forall ((x Ref)) (and (<= 0 (select H_Config x)) (<= (select H_Config x) 2))))
; body: switch e==nil -> false; Kind==Output(8) -> true; Config==Unset(0) -> call ReadOnly(e.Parent) [by contract]; default -> !(Config==TSTrue(1))
(declare-const callres Bool)
(assert (= callres (ro H_Parent H_Kind H_Config (select H_Parent e)))) ; callee post
(define-fun impl () Bool
  (ite (= e nil) false (ite (= (select H_Kind e) 8) true (ite (= (select H_Config e) 0) callres (not (= (select H_Config e) 1))))))
(assert (not (= impl (ro H_Parent H_Kind H_Config e))))
(check-sat)
