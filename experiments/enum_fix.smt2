; EnumType.Set preserves enumInv (maps as value+domain arrays); "last is the maximum assigned value, or nothing assigned"
(declare-sort Str 0)
(declare-const ToInt (Array Str Int)) (declare-const ToIntD (Array Str Bool))
(declare-const ToStr (Array Int Str)) (declare-const ToStrD (Array Int Bool))
(declare-const last Int) (declare-const mn Int) (declare-const mx Int) (declare-const uniq Bool)
(declare-const name Str) (declare-const value Int)
(declare-const w Str) ; skolem witness for "some member has value last"
(define-fun empty ((d (Array Str Bool))) Bool (forall ((k Str)) (not (select d k))))
(define-fun inv ((ti (Array Str Int)) (tid (Array Str Bool)) (ts (Array Int Str)) (tsd (Array Int Bool)) (l Int)) Bool
 (and
  (forall ((k Str)) (=> (select tid k) (and (<= mn (select ti k)) (<= (select ti k) mx) (<= (select ti k) l) (select tsd (select ti k)))))
  (forall ((v Int)) (=> (select tsd v) (and (select tid (select ts v)) (=> uniq (= (select ti (select ts v)) v)))))
  (=> uniq (forall ((k Str)) (=> (select tid k) (= (select ts (select ti k)) k))))
 ))
(assert (inv ToInt ToIntD ToStr ToStrD last))
(assert (or (and (empty ToIntD) (= last (- 1))) (and (select ToIntD w) (= (select ToInt w) last))))
(assert (<= mn mx))
; body of Set on the success path
(assert (not (select ToIntD name)))
(assert (not (and uniq (select ToStrD value))))
(assert (and (>= value mn) (<= value mx)))
(define-fun ToStr2 () (Array Int Str) (store ToStr value name))
(define-fun ToStrD2 () (Array Int Bool) (store ToStrD value true))
(define-fun ToInt2 () (Array Str Int) (store ToInt name value))
(define-fun ToIntD2 () (Array Str Bool) (store ToIntD name true))
(declare-const last2 Int)
(assert (= last2 (ite (or (empty ToIntD) (>= value last)) value last)))   ; candidate fix
(assert (not (and (inv ToInt2 ToIntD2 ToStr2 ToStrD2 last2)
   (exists ((k Str)) (and (select ToIntD2 k) (= (select ToInt2 k) last2))))))
(check-sat)
