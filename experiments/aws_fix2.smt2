(declare-const L (Array Int Int)) (declare-const n Int) (declare-const prefix Int) (declare-const underlay Int)
(define-fun-rec cb ((m Int) (i Int)) Int
  (ite (>= i n) 0
   (let ((sep (ite (> i 0) prefix 0)))
    (ite (<= m sep) 0
      (ite (<= (- m sep) (select L i)) (- m sep)
          (+ (select L i) (cb (- (- m sep) (select L i)) (+ i 1))))))))
(assert (forall ((i Int)) (>= (select L i) 0)))
(assert (and (> prefix 0) (>= underlay 0) (>= n 0)))
; loop head state (havoc) + invariant
(declare-const k Int) (declare-const actual Int) (declare-const remain Int)
(assert (and (<= 0 k) (<= k n)))
(assert (= (+ actual (cb remain k)) (cb underlay 0)))
(assert (= k n))
(assert (not (= actual (cb underlay 0))))
(check-sat)
