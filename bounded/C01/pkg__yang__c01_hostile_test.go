package yang

// Bounded stand-in for the part of C01 no contract reaches (reflection-driven
// builder, stack depth, hangs): a corpus of malformed, contradictory, cyclic
// and incomplete inputs, each loaded, processed and read back in a CHILD
// process (a stack overflow is fatal and cannot be recovered in-process) under
// a time limit. The child must exit normally; the inputs that must be rejected
// must produce at least one error.

import (
	"bytes"
	"context"
	"fmt"
	"math/rand"
	"os"
	"os/exec"
	"sort"
	"strconv"
	"strings"
	"testing"
	"time"
)

type govcHostile struct {
	name    string
	sources []string
	wantErr bool
}

func govcHostileCorpus() []govcHostile {
	hdr := func(n string) string { return "module " + n + " { namespace \"urn:" + n + "\"; prefix " + n + "; " }
	c := []govcHostile{
		{"identity-self", []string{hdr("m") + "identity a { base a; } }"}, true},
		{"identity-cycle-2", []string{hdr("m") + "identity a { base b; } identity b { base a; } leaf l { type identityref { base a; } } }"}, true},
		{"identity-cycle-3-two-modules", []string{hdr("m") + "import n { prefix n; } identity a { base n:c; } identity b { base a; } }", hdr("n") + "import m { prefix m; } identity c { base m:b; } }"}, true},
		{"typedef-self", []string{hdr("m") + "typedef a { type a; } leaf l { type a; } }"}, true},
		{"typedef-cycle-2", []string{hdr("m") + "typedef a { type b; } typedef b { type a; } leaf l { type a; } }"}, true},
		{"typedef-cycle-via-union", []string{hdr("m") + "typedef a { type union { type string; type a; } } leaf l { type a; } }"}, true},
		{"grouping-self", []string{hdr("m") + "grouping g { uses g; } container c { uses g; } }"}, true},
		{"grouping-cycle-2", []string{hdr("m") + "grouping g { container x { uses h; } } grouping h { uses g; } container c { uses g; } }"}, true},
		{"augment-leaf", []string{hdr("m") + "leaf x { type string; } augment \"/m:x\" { leaf y { type string; } } }"}, true},
		{"augment-leaf-other-module", []string{hdr("m") + "container c { leaf x { type string; } } }", hdr("a") + "import m { prefix m; } augment \"/m:c/m:x\" { leaf y { type string; } } }"}, true},
		{"unknown-type-in-submodule", []string{"module m { namespace \"urn:m\"; prefix m; include s; }", "submodule s { belongs-to m { prefix m; } leaf x { type nosuch; } }"}, true},
		{"unknown-prefixed-type-in-submodule", []string{"module m { namespace \"urn:m\"; prefix m; include s; }", "submodule s { belongs-to m { prefix m; } leaf x { type q:nosuch; } }"}, true},
		{"include-missing", []string{"module m { namespace \"urn:m\"; prefix m; include nosuch; container c { leaf x { type string; } } }"}, true},
		{"import-missing", []string{hdr("m") + "import nosuch { prefix n; } leaf x { type n:t; } }"}, true},
		{"top-level-grouping-with-typedef", []string{"grouping g { typedef a { type b; } }"}, true},
		{"orphan-submodule-identityref", []string{"submodule s { belongs-to m { prefix m; } leaf l { type identityref { base foo; } } }"}, true},
		{"orphan-submodule-identities", []string{"submodule s { belongs-to m { prefix m; } identity foo; identity bar { base foo; } identity baz { base m:bar; } }"}, false},
		{"include-missing-uses", []string{"module m { namespace \"urn:m\"; prefix m; include nosuch; container c { uses g; } }"}, true},
		{"import-missing-uses", []string{hdr("m") + "import nosuch { prefix n; } container c { uses n:g; } }"}, true},
		{"import-missing-identity-base", []string{hdr("m") + "import nosuch { prefix n; } identity a { base n:b; } leaf l { type identityref { base n:b; } } }"}, true},
		{"import-missing-augment", []string{hdr("m") + "import nosuch { prefix n; } augment \"/n:c\" { leaf y { type string; } } }"}, true},
		{"import-missing-leafref-deviation", []string{hdr("m") + "import nosuch { prefix n; } deviation \"/n:c\" { deviate not-supported; } leaf l { type leafref { path \"/n:c/n:d\"; } } }"}, true},
		{"orphan-submodule-augment-own-prefix", []string{"submodule s { belongs-to m { prefix m; } augment \"/m:c\" { leaf y { type string; } } container d { uses m:g; } }"}, true},
		{"top-level-unknown-keyword", []string{"foo bar;"}, true},
		{"top-level-container", []string{"container c { leaf x { type string; } }"}, true},
		{"unknown-statement", []string{hdr("m") + "bogus x; }"}, true},
		{"leaf-without-type", []string{hdr("m") + "leaf x; }"}, true},
		{"uses-unknown-grouping", []string{hdr("m") + "container c { uses nosuch; } }"}, true},
		{"deviation-missing-target", []string{hdr("m") + "deviation \"/m:nope\" { deviate not-supported; } }"}, true},
		{"augment-missing-target", []string{hdr("m") + "augment \"/m:nope/m:deeper\" { leaf y { type string; } } }"}, true},
		{"leafref-nowhere", []string{hdr("m") + "leaf x { type leafref { path \"../../../nope\"; } } }"}, false},
		{"enum-overflow", []string{hdr("m") + "leaf x { type enumeration { enum a { value 2147483647; } enum b; } } }"}, true},
		{"range-garbage", []string{hdr("m") + "leaf x { type int8 { range \"1..|..\"; } } }"}, true},
		{"decimal-without-digits", []string{hdr("m") + "leaf x { type decimal64; } }"}, true},
		{"submodule-include-cycle", []string{"module m { namespace \"urn:m\"; prefix m; include s1; }", "submodule s1 { belongs-to m { prefix m; } include s2; }", "submodule s2 { belongs-to m { prefix m; } include s1; leaf z { type string; } }"}, false},
		{"rpc-input-choice-bad-type", []string{hdr("m") + "rpc r { input { choice c { leaf a { type nosuch; } } } } }"}, true},
		{"uses-kept-grouping-tree", []string{hdr("m") + "grouping g { leaf x { type string; } container k { leaf y { type int8; } } } container c { uses g; } }"}, false},
		{"uses-kept-grouping-tree-two-modules", []string{hdr("m") + "grouping g { leaf x { type string; } action a { input { leaf i { type string; } } } } }", hdr("u") + "import m { prefix m; } list l { key x; uses m:g; } }"}, false},
		{"findnode-uses-self", []string{hdr("m") + "grouping g { uses g; leaf x { type string; } } container c { uses g; leaf z { type leafref { path \"../x\"; } } } }"}, true},
		{"findnode-uses-missing", []string{hdr("m") + "container c { uses nosuch; leaf z { type string; } } }"}, true},
		{"included-submodule-of-absent-module", []string{"submodule s { belongs-to nosuch { prefix n; } identity a; identity b { base a; } leaf l { type identityref { base a; } } }", hdr("m") + "include s; }"}, true},
		{"field-name-as-keyword-under-module", []string{hdr("m") + "Parent foo; }"}, true},
		{"field-names-as-keywords", []string{hdr("m") + "container c { Parent foo; Statement bar; } rpc r { input { Name baz; } } }"}, true},
		{"ninth-lexer-error-is-a-backslash-at-the-end", []string{"module m { description \"\\q\\q\\q\\q\\q\\q\\q\\q\\"}, true},
		{"ninth-lexer-error-is-a-backslash-before-a-line-break", []string{"a \"\\1\"; b \"\\2\"; c \"\\3\"; d \"\\4\"; e \"\\5\"; f \"\\6\"; g \"\\7\"; h \"\\8\"; i \"x\\\n  y\";"}, true},
		{"inner-grouping-uses-the-enclosing-one-unused", []string{hdr("m") + "grouping k { container c { grouping inner { container v { uses k; } } leaf a { type string; } } } container top { uses k; } }"}, false},
		{"inner-grouping-uses-the-enclosing-one-used", []string{hdr("m") + "grouping k { container c { grouping inner { uses k; } uses inner; } } container top { uses k; } }"}, true},
		{"decimal64-fraction-digits-64-with-min-max", []string{hdr("m") + "leaf x { type decimal64 { fraction-digits 64; range \"min..max\"; } } leaf y { type decimal64 { fraction-digits 320; range \"1..max\"; } } }"}, true},
		{"decimal64-fraction-digits-huge", []string{hdr("m") + "typedef d { type decimal64 { fraction-digits 99999999999999999999; range \"min..10\"; } } leaf x { type d; } }"}, true},
		{"augment-with-a-taken-name", []string{hdr("b") + "container top { leaf name { type string; } } }", hdr("a") + "import b { prefix b; } augment \"/b:top\" { leaf name { type string; } leaf other { type string; } } }"}, true},
		{"submodules-with-revisions-include-each-other-and-a-misspelt-uses", []string{"module m { namespace \"urn:m\"; prefix m; include s1; include s2; container c { uses misspelt; } }", "submodule s1 { belongs-to m { prefix m; } include s2; revision 2020-01-01; grouping g1 { leaf a { type string; } } }", "submodule s2 { belongs-to m { prefix m; } include s1; revision 2021-01-01; container d { uses alsomisspelt; } }"}, true},
		{"empty", []string{""}, false},
		{"only-comment", []string{"// nothing\n/* at all */"}, false},
		{"unterminated-string", []string{"module m { namespace \"urn:m; prefix m; }"}, true},
		{"unterminated-comment", []string{"module m { /* namespace \"urn:m\"; prefix m; }"}, true},
		{"lonely-braces", []string{"}}}}{{{{"}, true},
		{"deep-nesting", []string{hdr("m") + strings.Repeat("container c { ", 300) + "leaf x { type string; }" + strings.Repeat(" }", 300) + " }"}, false},
		{"many-errors", []string{strings.Repeat("\"x\" ;\n}\n", 50)}, true},
		{"nul-bytes", []string{"module m\x00 { namespace \"urn:m\"; prefix m; }"}, false},
		{"invalid-utf8", []string{"module m { namespace \"urn:\xff\xfe\"; prefix m; description \"\xc3\x28\"; }"}, false},
	}
	// random garbage from a token pool (seeded)
	seed := int64(1)
	if s := os.Getenv("VERIF_SEED"); s != "" {
		if v, err := strconv.ParseInt(s, 10, 64); err == nil {
			seed = v
		}
	}
	rng := rand.New(rand.NewSource(seed))
	pool := []string{"module", "submodule", "m", "{", "}", ";", "\"", "'", "+", "namespace", "prefix", "leaf", "type", "typedef", "grouping", "uses", "augment", "\"/m:c\"", "container", "c", "identity", "base", "import", "include",
		"belongs-to", "rpc", "input", "output", "choice", "case", "deviation", "deviate", "list", "key", "x", "string", "union", "enumeration", "enum", "value", "-1", "//", "/*", "*/", "\\", "\n", "\t", "a:b", "revision", "2020-01-01"}
	for i := 0; i < 40; i++ {
		var sb strings.Builder
		n := 5 + rng.Intn(60)
		for j := 0; j < n; j++ {
			sb.WriteString(pool[rng.Intn(len(pool))])
			sb.WriteByte(' ')
		}
		c = append(c, govcHostile{fmt.Sprintf("random-%d", i), []string{sb.String()}, false})
	}
	return c
}

// TestGovcChildC01 is the child: it processes one case and reads everything back.
func TestGovcChildC01(t *testing.T) {
	ix, err := strconv.Atoi(os.Getenv("GOVC_CASE"))
	if err != nil {
		return // not a child run
	}
	cs := govcHostileCorpus()[ix]
	ms := NewModules()
	// second half of the run: the same inputs with the grouping trees kept (StoreUses)
	ms.ParseOptions.StoreUses = os.Getenv("GOVC_STOREUSES") != ""
	nerr := 0
	for i, src := range cs.sources {
		if err := ms.Parse(src, fmt.Sprintf("%s-%d.yang", cs.name, i)); err != nil {
			nerr++
		}
	}
	nerr += len(ms.Process())
	// read access to whatever trees and errors came back
	var names []string
	for n := range ms.Modules {
		names = append(names, n)
	}
	sort.Strings(names)
	nodes := 0
	var walk func(e *Entry, depth int)
	walk = func(e *Entry, depth int) {
		if e == nil || depth > 2000 {
			return
		}
		nodes++
		_ = e.Path()
		_ = e.ReadOnly()
		_ = e.Namespace()
		_, _ = e.InstantiatingModule()
		_ = e.DefaultValues()
		_ = e.IsDir()
		_ = e.Modules()
		_ = e.Find(e.Path())
		_ = e.Find("../" + e.Name)
		if p := e.Prefix; p != nil {
			_ = e.Find("/" + p.Name + ":" + e.Name)
		}
		if e.Node != nil {
			_, _ = FindNode(e.Node, e.Name)
			_, _ = FindNode(e.Node, "../"+e.Name)
			_ = RootNode(e.Node)
		}
		for _, u := range e.Uses {
			// the tree of the grouping itself is handed out too; it is not rooted in a module
			walk(u.Grouping, depth+1)
		}
		for _, a := range e.Augmented {
			_ = a.Path()
			_ = a.Namespace()
			_, _ = a.InstantiatingModule()
		}
		for _, k := range e.Dir {
			walk(k, depth+1)
		}
		if e.RPC != nil {
			walk(e.RPC.Input, depth+1)
			walk(e.RPC.Output, depth+1)
		}
	}
	for _, n := range names {
		e := ToEntry(ms.Modules[n])
		nerr += len(e.GetErrors())
		walk(e, 0)
		var buf bytes.Buffer
		e.Print(&buf)
	}
	fmt.Printf("GOVC-CHILD-OK errs=%d nodes=%d\n", nerr, nodes)
}

func TestGovcBoundedC01Hostile(t *testing.T) {
	if os.Getenv("GOVC_CASE") != "" {
		return
	}
	corpus := govcHostileCorpus()
	evals := 0
	type res struct {
		i   int
		msg string
	}
	results := make(chan res, len(corpus))
	sem := make(chan struct{}, 8)
	for i := 0; i < 2*len(corpus); i++ {
		go func(i int) {
			storeUses := i >= len(corpus)
			i = i % len(corpus)
			sem <- struct{}{}
			defer func() { <-sem }()
			ctx, cancel := context.WithTimeout(context.Background(), 30*time.Second)
			defer cancel()
			cmd := exec.CommandContext(ctx, os.Args[0], "-test.run=^TestGovcChildC01$", "-test.v")
			cmd.Env = append(os.Environ(), fmt.Sprintf("GOVC_CASE=%d", i))
			if storeUses {
				cmd.Env = append(cmd.Env, "GOVC_STOREUSES=1")
			}
			out, err := cmd.CombinedOutput()
			cs := corpus[i]
			switch {
			case ctx.Err() != nil:
				results <- res{i, fmt.Sprintf("input %s: no answer within 30s (hang)", cs.name)}
			case err != nil || !bytes.Contains(out, []byte("GOVC-CHILD-OK")):
				tail := string(out)
				if j := strings.Index(tail, "goroutine "); j > 0 {
					tail = tail[:j]
				}
				if len(tail) > 300 {
					tail = tail[:300]
				}
				results <- res{i, fmt.Sprintf("input %s: the process died: %v: %s", cs.name, err, strings.ReplaceAll(tail, "\n", " | "))}
			case cs.wantErr && bytes.Contains(out, []byte("GOVC-CHILD-OK errs=0 ")):
				results <- res{i, fmt.Sprintf("input %s: accepted without any error", cs.name)}
			default:
				results <- res{i, ""}
			}
		}(i)
	}
	for i := 0; i < 2*len(corpus); i++ {
		r := <-results
		evals++
		if r.msg != "" {
			fmt.Printf("GOVC-FAIL name=c01-hostile-%s %s\n", corpus[r.i].name, r.msg)
		}
	}
	fmt.Printf("GOVC-BOUNDED name=c01-hostile-inputs-in-child-processes bound=%d_inputs_(cyclic,_contradictory,_incomplete,_garbage),_each_with_and_without_StoreUses,_30s_each evaluations=%d distinct=%d\n", len(corpus), evals, len(corpus))
}
