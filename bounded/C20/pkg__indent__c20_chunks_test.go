package indent

// Bounded stand-in for the content clauses of C20: chunk-independence of the
// rendered bytes and the byte accounting under short writes, against an
// independent byte-wise renderer. Run by /verif/check through -overlay.

import (
	"bytes"
	"errors"
	"fmt"
	"os"
	"testing"
)

// govcRender renders text byte-wise: the prefix before the first byte of every
// line. mark[i] is true when output byte i is a caller byte.
func govcRender(prefix, text string) (out []byte, mark []bool) {
	if prefix == "" {
		for i := 0; i < len(text); i++ {
			out = append(out, text[i])
			mark = append(mark, true)
		}
		return
	}
	atLineStart := true
	for i := 0; i < len(text); i++ {
		if atLineStart {
			for j := 0; j < len(prefix); j++ {
				out = append(out, prefix[j])
				mark = append(mark, false)
			}
			atLineStart = false
		}
		out = append(out, text[i])
		mark = append(mark, true)
		if text[i] == '\n' {
			atLineStart = true
		}
	}
	return
}

type govcShortWriter struct {
	buf   bytes.Buffer
	limit int
}

func (w *govcShortWriter) Write(p []byte) (int, error) {
	room := w.limit - w.buf.Len()
	if room >= len(p) {
		w.buf.Write(p)
		return len(p), nil
	}
	if room < 0 {
		room = 0
	}
	w.buf.Write(p[:room])
	return room, errors.New("short write")
}

// govcTexts: every text up to maxLen over the alphabet (which includes the
// bytes of the prefixes, so that a chunk may end in something that looks like
// a prefix).
func govcTexts(maxLen int, alphabet string) []string {
	var out []string
	var gen func(s string)
	gen = func(s string) {
		out = append(out, s)
		if len(s) == maxLen {
			return
		}
		for i := 0; i < len(alphabet); i++ {
			gen(s + alphabet[i:i+1])
		}
	}
	gen("")
	return out
}

// chunkings enumerates every division of text into non-empty chunks, and with
// allowEmpty also inserts an empty chunk at every boundary.
func govcChunkings(text string) [][]string {
	n := len(text)
	if n == 0 {
		return [][]string{{}, {""}}
	}
	var out [][]string
	for mask := 0; mask < 1<<(n-1); mask++ {
		var chunks []string
		start := 0
		for i := 1; i < n; i++ {
			if mask&(1<<(i-1)) != 0 {
				chunks = append(chunks, text[start:i])
				start = i
			}
		}
		chunks = append(chunks, text[start:])
		out = append(out, chunks)
	}
	return out
}

func TestGovcBoundedC20Chunks(t *testing.T) {
	maxLen := 6
	if os.Getenv("VERIF_TIER") == "thorough" {
		maxLen = 8
	}
	evals, distinct := 0, 0
	for _, prefix := range []string{">", "> ", ""} {
		for _, text := range govcTexts(maxLen, "x\n> ") {
			want, _ := govcRender(prefix, text)
			// the one-shot function agrees with the byte-wise renderer
			evals++
			if got := String(prefix, text); got != string(want) {
				fmt.Printf("GOVC-FAIL name=c20-oneshot String(%q, %q) = %q, byte-wise rendering is %q\n", prefix, text, got, want)
			}
			if got := Bytes([]byte(prefix), []byte(text)); string(got) != string(want) {
				fmt.Printf("GOVC-FAIL name=c20-oneshot Bytes(%q, %q) = %q, byte-wise rendering is %q\n", prefix, text, got, want)
			}
			for _, chunks := range govcChunkings(text) {
				distinct++
				evals++
				var buf bytes.Buffer
				w := NewWriter(&buf, prefix)
				for _, c := range chunks {
					n, err := w.Write([]byte(c))
					if err != nil || n != len(c) {
						fmt.Printf("GOVC-FAIL name=c20-chunks prefix %q chunks %q: Write(%q) = %d, %v; want %d, nil\n", prefix, chunks, c, n, err, len(c))
					}
				}
				if buf.String() != string(want) {
					fmt.Printf("GOVC-FAIL name=c20-chunks prefix %q chunks %q: output %q, one-shot rendering %q\n", prefix, chunks, buf.String(), want)
				}
			}
		}
	}
	// nested writers: an inner writer made on top of an outer one, at any point of the outer
	// writer's text (mid-line too), written to in turn with the outer one: what reaches the
	// destination is the outer rendering of (first part, inner rendering of the second part,
	// third part) -- the inner writer's lines go through the outer writer, nothing is collapsed
	nestLen := 4
	for _, t1 := range govcTexts(nestLen-1, "x\n") {
		for _, t2 := range govcTexts(nestLen-1, "x\n") {
			for _, t3 := range []string{"", "y", "\n", "y\n"} {
				evals++
				var buf bytes.Buffer
				outer := NewWriter(&buf, "> ")
				outer.Write([]byte(t1))
				inner := NewWriter(outer, "--")
				for i := 0; i < len(t2); i++ {
					inner.Write([]byte{t2[i]})
				}
				outer.Write([]byte(t3))
				in2, _ := govcRender("--", t2)
				want, _ := govcRender("> ", t1+string(in2)+t3)
				if buf.String() != string(want) {
					fmt.Printf("GOVC-FAIL name=c20-chunks nested writers: outer %q, inner %q, outer %q: output %q, want %q\n", t1, t2, t3, buf.String(), want)
				}
			}
		}
	}
	fmt.Printf("GOVC-BOUNDED name=c20-chunk-independence bound=all_texts_of_length_<=%d_over_{x,newline,>,blank}_x_3_prefixes_x_all_chunkings,_nested_writers_over_all_texts_of_length_<=3 evaluations=%d distinct=%d\n", maxLen, evals, distinct)
}

func TestGovcBoundedC20ShortWrites(t *testing.T) {
	maxLen := 5
	if os.Getenv("VERIF_TIER") == "thorough" {
		maxLen = 7
	}
	evals, distinct := 0, 0
	for _, prefix := range []string{">", "> "} {
		for _, text := range govcTexts(maxLen, "x\n>") {
			want, mark := govcRender(prefix, text)
			for _, chunks := range govcChunkings(text) {
				for limit := 0; limit < len(want); limit++ {
					distinct++
					evals++
					sw := &govcShortWriter{limit: limit}
					w := NewWriter(sw, prefix)
					reported := 0
					failed := false
					for _, c := range chunks {
						n, err := w.Write([]byte(c))
						if n < 0 || n > len(c) {
							fmt.Printf("GOVC-FAIL name=c20-short prefix %q chunks %q limit %d: Write(%q) = %d outside [0,%d]\n", prefix, chunks, limit, c, n, len(c))
						}
						reported += n
						if err != nil {
							failed = true
							break
						}
						if n != len(c) {
							fmt.Printf("GOVC-FAIL name=c20-short prefix %q chunks %q limit %d: Write(%q) = %d, nil (a successful Write reports the full length)\n", prefix, chunks, limit, c, n)
						}
					}
					if !failed {
						fmt.Printf("GOVC-FAIL name=c20-short prefix %q chunks %q limit %d: no Write reported the short write\n", prefix, chunks, limit)
						continue
					}
					// caller bytes that actually reached the underlying writer
					reached := 0
					for i := 0; i < limit && i < len(mark); i++ {
						if mark[i] {
							reached++
						}
					}
					if !bytes.Equal(sw.buf.Bytes(), want[:limit]) {
						fmt.Printf("GOVC-FAIL name=c20-short prefix %q chunks %q limit %d: underlying writer holds %q, want %q\n", prefix, chunks, limit, sw.buf.Bytes(), want[:limit])
					}
					if reported != reached {
						fmt.Printf("GOVC-FAIL name=c20-short prefix %q chunks %q limit %d: Writes reported %d caller bytes, %d reached the underlying writer\n", prefix, chunks, limit, reported, reached)
					}
				}
			}
		}
	}
	fmt.Printf("GOVC-BOUNDED name=c20-short-write-accounting bound=all_texts_of_length_<=%d_over_{x,newline,>}_x_2_prefixes_x_all_chunkings_x_all_stop_positions evaluations=%d distinct=%d\n", maxLen, evals, distinct)
}
