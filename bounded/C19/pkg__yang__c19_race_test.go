package yang

// Bounded stand-in for what a contract cannot observe about C19: actual
// interleavings. Run under the race detector (FLAGS: -race): N goroutines each
// run the whole load-process pipeline on their own module set while M
// goroutines issue the read-only API against one shared processed set,
// including first-time namespace lookups issued at the same moment; every
// reader must obtain what a sequential run obtains.

import (
	"bytes"
	"fmt"
	"os"
	"sort"
	"strings"
	"sync"
	"testing"
)

const govcRaceBase = `module m { namespace "urn:m"; prefix m;
  grouping g { leaf gl { type string; default "d"; } container gc { config false; leaf deep { type int8; } } }
  container c { uses g; leaf own { type uint8; } list l { key k; leaf k { type string; } } }
  rpc r { input { leaf i { type string; } } output { leaf o { type string; } } }
}`
const govcRaceAug = `module a { namespace "urn:a"; prefix a; import m { prefix m; } augment "/m:c" { leaf ax { type string; } } }`

func govcSnapshot(ms *Modules) string {
	var out []string
	var walk func(e *Entry, path string)
	walk = func(e *Entry, path string) {
		ns := e.Namespace().Name
		im, err := e.InstantiatingModule()
		dv, _ := e.SingleDefaultValue()
		out = append(out, fmt.Sprintf("%s ro=%v ns=%s im=%s/%v dir=%v def=%q errs=%d", path, e.ReadOnly(), ns, im, err, e.IsDir(), dv, len(e.GetErrors())))
		var ks []string
		for k := range e.Dir {
			ks = append(ks, k)
		}
		sort.Strings(ks)
		for _, k := range ks {
			walk(e.Dir[k], path+"/"+k)
		}
		if e.RPC != nil {
			if e.RPC.Input != nil {
				walk(e.RPC.Input, path+"/input")
			}
			if e.RPC.Output != nil {
				walk(e.RPC.Output, path+"/output")
			}
		}
	}
	for _, n := range []string{"m", "a"} {
		root := ToEntry(ms.Modules[n])
		walk(root, "/"+n)
		if f := root.Find("/m:c/a:ax"); f == nil {
			out = append(out, "find /m:c/a:ax = nil")
		} else {
			out = append(out, "find /m:c/a:ax = "+f.Path())
		}
	}
	// printing (goes through the indenting writer of pkg/indent for every description and child)
	for _, n := range []string{"m", "a"} {
		var buf bytes.Buffer
		ToEntry(ms.Modules[n]).Print(&buf)
		out = append(out, buf.String())
	}
	for _, ns := range []string{"urn:m", "urn:a", "urn:none"} {
		mod, err := ms.FindModuleByNamespace(ns)
		if err != nil {
			out = append(out, ns+" -> error")
		} else {
			out = append(out, ns+" -> "+mod.Name)
		}
	}
	return strings.Join(out, "\n")
}

func govcPipeline() (*Modules, error) {
	ms := NewModules()
	if err := ms.Parse(govcRaceBase, "m.yang"); err != nil {
		return nil, err
	}
	if err := ms.Parse(govcRaceAug, "a.yang"); err != nil {
		return nil, err
	}
	if errs := ms.Process(); len(errs) > 0 {
		return nil, errs[0]
	}
	return ms, nil
}

func TestGovcBoundedC19Race(t *testing.T) {
	rounds := 4
	if os.Getenv("VERIF_TIER") == "thorough" {
		rounds = 40
	}
	ref, err := govcPipeline()
	if err != nil {
		fmt.Printf("GOVC-FAIL name=c19-race pipeline failed sequentially: %v\n", err)
		return
	}
	want := govcSnapshot(ref)
	evals := 0
	for round := 0; round < rounds; round++ {
		shared, err := govcPipeline() // fresh, so that namespace lookups are uncached
		if err != nil {
			fmt.Printf("GOVC-FAIL name=c19-race pipeline failed: %v\n", err)
			return
		}
		var wg sync.WaitGroup
		var mu sync.Mutex
		var bad []string
		start := make(chan struct{})
		for g := 0; g < 8; g++ {
			wg.Add(1)
			go func(g int) {
				defer wg.Done()
				<-start
				var got string
				if g%2 == 0 {
					got = govcSnapshot(shared) // concurrent readers of one processed set
				} else {
					ms, err := govcPipeline() // independent sets processed in parallel
					if err != nil {
						mu.Lock()
						bad = append(bad, fmt.Sprintf("goroutine %d: pipeline error %v", g, err))
						mu.Unlock()
						return
					}
					got = govcSnapshot(ms)
				}
				if got != want {
					mu.Lock()
					bad = append(bad, fmt.Sprintf("goroutine %d obtained a result that differs from the sequential run", g))
					mu.Unlock()
				}
			}(g)
		}
		close(start)
		wg.Wait()
		evals += 8
		for _, b := range bad {
			fmt.Printf("GOVC-FAIL name=c19-race round %d: %s\n", round, b)
		}
	}
	fmt.Printf("GOVC-BOUNDED name=c19-race-detector-run bound=%d_rounds_x_8_goroutines_(4_readers_of_a_shared_set,_4_independent_pipelines)_under_-race evaluations=%d distinct=%d\n", rounds, evals, rounds)
}
