package yang

// Bounded stand-in for C18: random histories of load(good text), load(bad
// text), process and read on ONE module set, compared with the batch run of
// the good texts on a fresh set: after every process of the history, the
// rendering of all trees, identity lists and errors must equal what a fresh
// set gives for the good texts loaded so far (in the same order); processing
// twice in a row must give the same as once. Bad texts: syntax errors, unknown
// statements, a valid module followed by an invalid one in the same text, a
// top-level statement that is not a module, a second module of a name that is
// loaded already.

import (
	"fmt"
	"math/rand"
	"os"
	"sort"
	"strconv"
	"strings"
	"testing"
)

func govcRender(ms *Modules, errs []error) string {
	var sb strings.Builder
	for _, e := range errs {
		fmt.Fprintf(&sb, "error: %v\n", e)
	}
	var names []string
	for n := range ms.Modules {
		names = append(names, n)
	}
	sort.Strings(names)
	var walk func(e *Entry, ind string)
	walk = func(e *Entry, ind string) {
		if e == nil {
			return
		}
		ty := ""
		if e.Type != nil {
			ty = TypeKindToName[e.Type.Kind] + " units=" + e.Type.Units + " pat=" + strings.Join(e.Type.Pattern, "|")
			if e.Type.IdentityBase != nil {
				var vs []string
				for _, v := range e.Type.IdentityBase.Values {
					vs = append(vs, v.Name)
				}
				ty += " idref=" + e.Type.IdentityBase.Name + "[" + strings.Join(vs, ",") + "]"
			}
		}
		la := ""
		if e.ListAttr != nil {
			la = fmt.Sprintf(" min=%d max=%d", e.ListAttr.MinElements, e.ListAttr.MaxElements)
		}
		ns := ""
		if v := e.Namespace(); v != nil {
			ns = v.Name
		}
		fmt.Fprintf(&sb, "%s%s kind=%v type=[%s] default=%v config=%v mandatory=%v ns=%s%s errors=%d\n", ind, e.Name, e.Kind, ty, e.DefaultValues(), e.Config, e.Mandatory, ns, la, len(e.Errors))
		var ks []string
		for k := range e.Dir {
			ks = append(ks, k)
		}
		sort.Strings(ks)
		for _, k := range ks {
			walk(e.Dir[k], ind+"  ")
		}
		if e.RPC != nil {
			walk(e.RPC.Input, ind+"  ")
			walk(e.RPC.Output, ind+"  ")
		}
	}
	for _, n := range names {
		if strings.Contains(n, "@") {
			continue
		}
		m := ms.Modules[n]
		fmt.Fprintf(&sb, "module %s\n", n)
		for _, id := range m.Identity {
			var vs []string
			for _, v := range id.Values {
				vs = append(vs, v.Name)
			}
			fmt.Fprintf(&sb, "  identity %s values=%v\n", id.Name, vs)
		}
		walk(ToEntry(m), "  ")
	}
	return sb.String()
}

func TestGovcBoundedC18Histories(t *testing.T) {
	seed := int64(1)
	if s := os.Getenv("VERIF_SEED"); s != "" {
		if v, err := strconv.ParseInt(s, 10, 64); err == nil {
			seed = v
		}
	}
	histories := 80
	if os.Getenv("VERIF_TIER") == "thorough" {
		histories = 1200
	}
	rng := rand.New(rand.NewSource(seed))
	evals, steps := 0, 0
	for h := 0; h < histories; h++ {
		// every other history over a layered set (imports point at earlier modules only), loaded in
		// that order: every intermediate run is a successful one, and later loads build on it
		layered := h%2 == 1
		g := &gxGen{rng: rng, nGroup: rng.Intn(3), layered: layered}
		g.mkModules()
		for _, m := range g.mods {
			g.topNodes(m)
		}
		g.mkGroupings()
		g.mkInstances()
		// identities and an identityref per module; a restriction that is wrong now and then
		for i, m := range g.mods {
			if m.belongs != nil {
				continue
			}
			m.stmt.add(gs("identity", fmt.Sprintf("base%d", i)), gs("identity", fmt.Sprintf("der%d", i), gs("base", fmt.Sprintf("base%d", i))))
			for _, p := range impPrefixes(m) {
				o := m.imports[p]
				if rng.Intn(2) == 0 {
					m.stmt.add(gs("identity", fmt.Sprintf("x%d%s", i, o.name), gs("base", p+":base"+o.name[1:])))
				}
				// ... and one two steps below the other module's base: a module loaded later
				// lengthens a chain whose upper part was closed by an earlier run
				m.stmt.add(gs("identity", fmt.Sprintf("y%d%s", i, o.name), gs("base", p+":der"+o.name[1:])))
				m.stmt.add(gs("identity", fmt.Sprintf("z%d%s", i, o.name), gs("base", fmt.Sprintf("y%d%s", i, o.name))))
			}
			m.stmt.add(gs("leaf", fmt.Sprintf("idref%d", i), gs("type", "identityref", gs("base", fmt.Sprintf("base%d", i)))))
			if rng.Intn(6) == 0 {
				m.stmt.add(gs("leaf", g.fresh("badlen"), gs("type", "string", gs("length", "abc"))))
			}
			if rng.Intn(7) == 0 {
				// a derivation cycle: reported by every run, not by the first one only
				m.stmt.add(gs("identity", fmt.Sprintf("cyca%d", i), gs("base", fmt.Sprintf("cycb%d", i))), gs("identity", fmt.Sprintf("cycb%d", i), gs("base", fmt.Sprintf("cyca%d", i))))
			}
		}
		// a few augments into other modules
		for a := 0; a < rng.Intn(3); a++ {
			ex := g.model()
			if len(ex.errs) > 0 {
				break
			}
			var targets []*gxNode
			for _, r := range ex.rootList() {
				gxCollect(r, func(x *gxNode) bool { return x.parent != nil && x.kind == "container" }, &targets)
			}
			if len(targets) == 0 {
				break
			}
			am := g.mods[rng.Intn(len(g.mods))]
			am.stmt.add(gs("augment", g.nsPath(am, targets[rng.Intn(len(targets))]), g.dataNodes(am, fmt.Sprintf("h%da", a), 1)...))
		}
		var good []string
		for _, m := range g.mods {
			good = append(good, m.text())
		}
		bad := []string{
			"module broken { namespace \"urn:b\"; prefix b; leaf x { type string; ",
			"module broken2 { namespace \"urn:b2\"; prefix b2; typedef bt { type string; } bogus-statement x; }",
			"module first-ok { namespace \"urn:f\"; prefix f; typedef ft { type nosuchtype; } identity fi; }\nmodule second-bad { namespace \"urn:s\"; prefix s; bogus x; }",
			"grouping not-a-module { typedef gt { type alsonosuch; } leaf x { type string; } }",
			"module no-closing-quote { namespace \"urn:e; prefix e; }",
		}
		ms := NewModules()
		var loaded []string
		batch := func() string {
			fresh := NewModules()
			for i, src := range loaded {
				if err := fresh.Parse(src, fmt.Sprintf("g%d.yang", i)); err != nil {
					return "batch load error: " + err.Error()
				}
			}
			return govcRender(fresh, fresh.Process())
		}
		order := rng.Perm(len(good))
		if layered {
			// submodules first (an include must be resolvable), then the modules as made
			order = order[:0]
			for i, m := range g.mods {
				if m.belongs != nil {
					order = append(order, i)
				}
			}
			for i, m := range g.mods {
				if m.belongs == nil {
					order = append(order, i)
				}
			}
		}
		next := 0
		var trace []string
		for ops := 0; ops < 14 && (next < len(good) || ops < 6); ops++ {
			steps++
			switch k := rng.Intn(7); {
			case k <= 1 && next < len(good):
				src := good[order[next]]
				next++
				if err := ms.Parse(src, fmt.Sprintf("g%d.yang", len(loaded))); err != nil {
					fmt.Printf("GOVC-FAIL name=c18-histories history %d: a good text is refused: %v\n", h, err)
				}
				loaded = append(loaded, src)
				trace = append(trace, fmt.Sprintf("load good %d", order[next-1]))
			case k == 2:
				b := rng.Intn(len(bad))
				if err := ms.Parse(bad[b], "bad.yang"); err == nil {
					fmt.Printf("GOVC-FAIL name=c18-histories history %d: bad text %d is accepted\n", h, b)
				}
				trace = append(trace, fmt.Sprintf("load bad %d", b))
			case k == 3 && len(loaded) > 0:
				// a module of a name that is loaded already: refused, no trace
				dupl := strings.Replace(loaded[rng.Intn(len(loaded))], "{", "{ description \"again\";", 1)
				if !strings.HasPrefix(dupl, "module") {
					continue
				}
				switch rng.Intn(3) {
				case 0:
					// behind a module that is fine: nothing of the text may stay, the fine module included
					dupl = fmt.Sprintf("module extra%d { namespace \"urn:x%d\"; prefix x; typedef xt { type string; } leaf xl { type xt; } }\n", steps, steps) + dupl
				case 1:
					// behind two revisions of one fine module (both take the bare name in turn)
					dupl = fmt.Sprintf("module extra%d { namespace \"urn:x%d\"; prefix x; revision 2020-01-01; leaf xl { type string; } }\nmodule extra%d { namespace \"urn:x%d\"; prefix x; revision 2021-01-01; leaf xl { type string; } leaf xm { type string; } }\n", steps, steps, steps, steps) + dupl
				}
				if err := ms.Parse(dupl, "dup.yang"); err == nil {
					fmt.Printf("GOVC-FAIL name=c18-histories history %d: a second module of a loaded name is accepted\n", h)
				}
				trace = append(trace, "load duplicate")
			case k == 4:
				_ = govcRender(ms, nil) // read
				trace = append(trace, "read")
			default:
				evals++
				got := govcRender(ms, ms.Process())
				trace = append(trace, "process")
				if rng.Intn(2) == 0 {
					again := govcRender(ms, ms.Process())
					trace = append(trace, "process")
					if again != got {
						fmt.Printf("GOVC-FAIL name=c18-process-twice history %d (%s): processing twice differs from once\n--- once\n%s--- twice\n%s\n", h, strings.Join(trace, "; "), got, again)
						break
					}
				}
				if want := batch(); got != want {
					fmt.Printf("GOVC-FAIL name=c18-histories history %d (%s): differs from the batch run of the good texts\n--- history\n%s--- batch\n%s\n", h, strings.Join(trace, "; "), got, want)
				}
			}
		}
		evals++
		got := govcRender(ms, ms.Process())
		if want := batch(); got != want {
			fmt.Printf("GOVC-FAIL name=c18-histories history %d (%s; process): the final state differs from the batch run of the good texts\n--- history\n%s--- batch\n%s\n", h, strings.Join(trace, "; "), got, want)
		}
	}
	fmt.Printf("GOVC-BOUNDED name=c18-histories-vs-batch bound=%d_random_histories_(<=14_operations:_load_good,_load_bad,_load_duplicate,_read,_process;_seed_%d) evaluations=%d distinct=%d\n", histories, seed, evals, steps)
}
