package yang

// Shared by the bounded stand-ins of C06, C07 and C08 (the file is copied into
// each of their directories): a small statement-tree representation of YANG
// modules, a writer, and an INDEPENDENT expander that computes the data tree
// the modules denote -- grouping expansion by lexical scope, augments applied
// to a fixpoint, implicit cases, deviations -- without using any of the
// library's data structures. A comparison walks the library's Entry tree
// against it.

import (
	"fmt"
	"sort"
	"strings"
)

type gsStmt struct {
	kw, arg string
	kids    []*gsStmt
}

func gs(kw, arg string, kids ...*gsStmt) *gsStmt { return &gsStmt{kw, arg, kids} }

func (s *gsStmt) add(k ...*gsStmt) *gsStmt { s.kids = append(s.kids, k...); return s }

func (s *gsStmt) child(kw string) *gsStmt {
	for _, k := range s.kids {
		if k.kw == kw {
			return k
		}
	}
	return nil
}

func (s *gsStmt) write(sb *strings.Builder, ind string) {
	arg := s.arg
	if arg != "" && (strings.ContainsAny(arg, " /:\"{};") || s.kw == "namespace" || s.kw == "default") {
		arg = "\"" + arg + "\""
	}
	sb.WriteString(ind + s.kw)
	if arg != "" {
		sb.WriteString(" " + arg)
	}
	if len(s.kids) == 0 {
		sb.WriteString(";\n")
		return
	}
	sb.WriteString(" {\n")
	for _, k := range s.kids {
		k.write(sb, ind+"  ")
	}
	sb.WriteString(ind + "}\n")
}

type gsMod struct {
	name, prefix string
	belongs      *gsMod
	subs         []*gsMod
	imports      map[string]*gsMod // prefix -> module
	stmt         *gsStmt           // the module / submodule statement
}

func (m *gsMod) owner() *gsMod {
	if m.belongs != nil {
		return m.belongs
	}
	return m
}

// header fills in the header statements in front of the body statements.
func (m *gsMod) text() string {
	var hdr []*gsStmt
	if m.belongs != nil {
		hdr = append(hdr, gs("belongs-to", m.belongs.name, gs("prefix", m.prefix)))
	} else {
		hdr = append(hdr, gs("namespace", "urn:"+m.name), gs("prefix", m.prefix))
	}
	var pf []string
	for p := range m.imports {
		pf = append(pf, p)
	}
	sort.Strings(pf)
	for _, p := range pf {
		hdr = append(hdr, gs("import", m.imports[p].name, gs("prefix", p)))
	}
	for _, s := range m.subs {
		hdr = append(hdr, gs("include", s.name))
	}
	kw := "module"
	if m.belongs != nil {
		kw = "submodule"
	}
	full := gs(kw, m.name, append(hdr, m.stmt.kids...)...)
	var sb strings.Builder
	full.write(&sb, "")
	return sb.String()
}

// ---------------------------------------------------------------------------
// the expected data tree

type gxNode struct {
	name, kind, ns string
	typ            string // built-in kind of a leaf / leaf-list
	def            []string
	typeDef        string // default inherited from the typedef chain
	units          string
	config         string // "", "true", "false" as written (or deviated)
	mandatory      string
	mandWritten    string // mandatory as the leaf statement has it (a deviation does not change which leaves inherit a type default)
	min, max       string
	kids           []*gxNode
	parent         *gxNode
	implicit       bool // the case implied by a shorthand member of a choice
}

// defaults: the explicit ones, else the default of the type where it applies
// (a leaf that is not mandatory, a leaf-list without a minimum).
func (x *gxNode) defaults() []string {
	if len(x.def) > 0 {
		return x.def
	}
	if x.typeDef == "" {
		return nil
	}
	if x.kind == "leaf" && x.mandWritten != "true" {
		return []string{x.typeDef}
	}
	if x.kind == "leaf-list" && (x.min == "" || x.min == "0") {
		return []string{x.typeDef}
	}
	return nil
}

func (x *gxNode) kid(name string) *gxNode {
	for _, k := range x.kids {
		if k.name == name {
			return k
		}
	}
	return nil
}

func (x *gxNode) path() string {
	if x.parent == nil {
		return "/" + x.name
	}
	return x.parent.path() + "/" + x.name
}

var gxDataKinds = map[string]bool{"container": true, "list": true, "leaf": true, "leaf-list": true, "choice": true, "case": true,
	"rpc": true, "action": true, "input": true, "output": true, "notification": true}

type gxExpander struct {
	mods  []*gsMod
	roots map[string]*gxNode
	errs  []string
}

func splitPfx(s string) (string, string) {
	if i := strings.Index(s, ":"); i >= 0 {
		return s[:i], s[i+1:]
	}
	return "", s
}

// scope is the chain of enclosing statements, innermost last; its first
// element is the module or submodule statement.
type gxScope struct {
	mod   *gsMod
	chain []*gsStmt
}

func (sc gxScope) with(s *gsStmt) gxScope {
	return gxScope{sc.mod, append(append([]*gsStmt{}, sc.chain...), s)}
}

func (ex *gxExpander) modOfPrefix(m *gsMod, pfx string) *gsMod {
	if pfx == "" || pfx == m.prefix {
		return m
	}
	return m.imports[pfx]
}

func (ex *gxExpander) findTop(m *gsMod, kw, name string) (*gsStmt, gxScope, bool) {
	for _, k := range m.stmt.kids {
		if k.kw == kw && k.arg == name {
			return k, gxScope{m, []*gsStmt{m.stmt}}, true
		}
	}
	for _, s := range m.subs {
		for _, k := range s.stmt.kids {
			if k.kw == kw && k.arg == name {
				return k, gxScope{s, []*gsStmt{s.stmt}}, true
			}
		}
	}
	return nil, gxScope{}, false
}

// find resolves a grouping or typedef reference by lexical scope.
func (ex *gxExpander) find(sc gxScope, kw, ref string) (*gsStmt, gxScope, bool) {
	pfx, name := splitPfx(ref)
	if pfx == "" || pfx == sc.mod.prefix {
		for i := len(sc.chain) - 1; i >= 0; i-- {
			for _, k := range sc.chain[i].kids {
				if k.kw == kw && k.arg == name {
					return k, gxScope{sc.mod, sc.chain[:i+1]}, true
				}
			}
		}
		// the top level of the module includes that of the submodules it includes
		for _, s := range sc.mod.subs {
			for _, k := range s.stmt.kids {
				if k.kw == kw && k.arg == name {
					return k, gxScope{s, []*gsStmt{s.stmt}}, true
				}
			}
		}
		return nil, gxScope{}, false
	}
	m := sc.mod.imports[pfx]
	if m == nil {
		return nil, gxScope{}, false
	}
	return ex.findTop(m, kw, name)
}

var gxBuiltin = map[string]bool{"string": true, "int8": true, "int16": true, "int32": true, "uint8": true, "uint16": true, "uint32": true, "boolean": true, "empty": true, "binary": true}

func (ex *gxExpander) resolveType(sc gxScope, ref string, depth int) (kind, def, units string) {
	if gxBuiltin[ref] {
		return ref, "", ""
	}
	if depth > 20 {
		ex.errs = append(ex.errs, "typedef chain too deep: "+ref)
		return "", "", ""
	}
	td, tsc, ok := ex.find(sc, "typedef", ref)
	if !ok {
		ex.errs = append(ex.errs, "unknown type "+ref)
		return "", "", ""
	}
	k, d, u := ex.resolveType(tsc.with(td), td.child("type").arg, depth+1)
	if c := td.child("default"); c != nil {
		d = c.arg
	}
	if c := td.child("units"); c != nil {
		u = c.arg
	}
	return k, d, u
}

func (ex *gxExpander) expandInto(parent *gxNode, stmts []*gsStmt, sc gxScope, ns string, depth int) {
	if depth > 30 {
		ex.errs = append(ex.errs, "expansion too deep")
		return
	}
	for _, s := range stmts {
		switch {
		case s.kw == "uses":
			g, gsc, ok := ex.find(sc, "grouping", s.arg)
			if !ok {
				ex.errs = append(ex.errs, "unknown grouping "+s.arg)
				continue
			}
			ex.expandInto(parent, g.kids, gsc.with(g), ns, depth+1)
		case gxDataKinds[s.kw]:
			n := &gxNode{name: s.arg, kind: s.kw, ns: ns, parent: parent}
			if s.kw == "input" || s.kw == "output" {
				n.name = s.kw
			}
			if parent.kid(n.name) != nil {
				ex.errs = append(ex.errs, "duplicate node "+parent.path()+"/"+n.name)
				continue
			}
			typeDef := ""
			for _, k := range s.kids {
				switch k.kw {
				case "type":
					var u string
					n.typ, typeDef, u = ex.resolveType(sc.with(s), k.arg, 0)
					if u != "" && s.child("units") == nil {
						n.units = u
					}
				case "default":
					n.def = append(n.def, k.arg)
				case "units":
					n.units = k.arg
				case "config":
					n.config = k.arg
				case "mandatory":
					n.mandatory, n.mandWritten = k.arg, k.arg
				case "min-elements":
					n.min = k.arg
				case "max-elements":
					n.max = k.arg
				}
			}
			n.typeDef = typeDef
			parent.kids = append(parent.kids, n)
			ex.expandInto(n, s.kids, sc.with(s), ns, depth+1)
		}
	}
}

// checkGroupings expands every grouping once into a scratch node: what is
// wrong inside a grouping is an error whether or not the grouping is used.
func (ex *gxExpander) checkGroupings(s *gsStmt, sc gxScope) {
	for _, k := range s.kids {
		if k.kw == "grouping" {
			ex.expandInto(&gxNode{name: "scratch", kind: "container"}, k.kids, sc.with(k), sc.mod.owner().name, 1)
		}
		ex.checkGroupings(k, sc.with(k))
	}
}

func (ex *gxExpander) expandAll() {
	for _, m := range ex.mods {
		ex.checkGroupings(m.stmt, gxScope{m, []*gsStmt{m.stmt}})
	}
	ex.roots = map[string]*gxNode{}
	for _, m := range ex.mods {
		if m.belongs != nil {
			continue
		}
		root := &gxNode{name: m.name, kind: "module", ns: m.name}
		ex.roots[m.name] = root
		ex.expandInto(root, m.stmt.kids, gxScope{m, []*gsStmt{m.stmt}}, m.name, 0)
		for _, s := range m.subs {
			ex.expandInto(root, s.stmt.kids, gxScope{s, []*gsStmt{s.stmt}}, m.name, 0)
		}
	}
}

// lookup walks an absolute schema path written in module m.
func (ex *gxExpander) lookup(m *gsMod, path string) *gxNode {
	parts := strings.Split(strings.TrimPrefix(path, "/"), "/")
	pfx, _ := splitPfx(parts[0])
	tm := ex.modOfPrefix(m, pfx)
	if tm == nil {
		return nil
	}
	x := ex.roots[tm.owner().name]
	for _, p := range parts {
		_, name := splitPfx(p)
		if x = x.kid(name); x == nil {
			return nil
		}
	}
	return x
}

func gxCanHaveChildren(x *gxNode) bool {
	switch x.kind {
	case "container", "list", "choice", "case", "input", "output", "notification":
		return true
	}
	return false
}

// applyAugments grafts every augment whose target exists, to a fixpoint.
// It returns the augments whose target never showed up.
func (ex *gxExpander) applyAugments() (missing []string) {
	type aug struct {
		m    *gsMod
		s    *gsStmt
		done bool
	}
	var augs []*aug
	for _, m := range ex.mods {
		for _, k := range m.stmt.kids {
			if k.kw == "augment" {
				augs = append(augs, &aug{m: m, s: k})
			}
		}
	}
	for progress := true; progress; {
		progress = false
		for _, a := range augs {
			if a.done {
				continue
			}
			t := ex.lookup(a.m, a.s.arg)
			if t == nil {
				continue
			}
			a.done, progress = true, true
			if !gxCanHaveChildren(t) {
				ex.errs = append(ex.errs, "augment of a node that cannot have children: "+a.s.arg)
				continue
			}
			ex.expandInto(t, a.s.kids, gxScope{a.m, []*gsStmt{a.m.stmt, a.s}}, a.m.owner().name, 0)
		}
	}
	for _, a := range augs {
		if !a.done {
			missing = append(missing, a.s.arg)
		}
	}
	return missing
}

// fixChoices wraps every shorthand member of a choice in a case of its name.
func (x *gxNode) fixChoices() {
	if x.kind == "choice" {
		for i, k := range x.kids {
			if k.kind != "case" {
				c := &gxNode{name: k.name, kind: "case", ns: k.ns, parent: x, kids: []*gxNode{k}, implicit: true}
				k.parent = c
				x.kids[i] = c
			}
		}
	}
	for _, k := range x.kids {
		k.fixChoices()
	}
}

// ---------------------------------------------------------------------------
// comparison with the library's tree

type gxCmp struct {
	fails []string
	seen  map[*Entry]string
	attrs map[*ListAttr]string
	rpcs  map[*RPCEntry]string
	nodes int
}

func (c *gxCmp) failf(format string, a ...interface{}) {
	if len(c.fails) < 5 {
		c.fails = append(c.fails, fmt.Sprintf(format, a...))
	}
}

func gxKindOf(e *Entry) string {
	switch {
	case e.RPC != nil:
		return "rpc"
	case e.Kind == LeafEntry && e.ListAttr != nil:
		return "leaf-list"
	case e.Kind == LeafEntry:
		return "leaf"
	case e.Kind == ChoiceEntry:
		return "choice"
	case e.Kind == CaseEntry:
		return "case"
	case e.Kind == InputEntry:
		return "input"
	case e.Kind == OutputEntry:
		return "output"
	case e.Kind == NotificationEntry:
		return "notification"
	case e.Kind == DirectoryEntry && e.ListAttr != nil:
		return "list"
	case e.Kind == DirectoryEntry:
		return "container"
	}
	return fmt.Sprint(e.Kind)
}

func (c *gxCmp) compare(e *Entry, x *gxNode, parent *Entry) {
	p := x.path()
	if e == nil {
		c.failf("%s: missing in the library's tree", p)
		return
	}
	if prev, ok := c.seen[e]; ok {
		c.failf("%s: the same node object is also %s", p, prev)
		return
	}
	c.seen[e] = p
	c.nodes++
	if e.ListAttr != nil {
		if prev, ok := c.attrs[e.ListAttr]; ok {
			c.failf("%s: shares its list attributes object with %s", p, prev)
		}
		c.attrs[e.ListAttr] = p
	}
	if e.RPC != nil {
		if prev, ok := c.rpcs[e.RPC]; ok {
			c.failf("%s: shares its input/output holder with %s", p, prev)
		}
		c.rpcs[e.RPC] = p
	}
	if e.Parent != parent {
		c.failf("%s: Parent does not point at the node it is filed under", p)
	}
	if e.Name != x.name {
		c.failf("%s: named %q", p, e.Name)
	}
	wantKind := x.kind
	if wantKind == "action" {
		wantKind = "rpc"
	}
	if x.kind != "module" {
		if got := gxKindOf(e); got != wantKind {
			c.failf("%s: is a %s, expected %s", p, got, wantKind)
		}
		// (the namespace of an implied case is not compared: it is not a node any text defines)
		if ns := e.Namespace(); !x.implicit && (ns == nil || ns.Name != "urn:"+x.ns) {
			got := "<nil>"
			if ns != nil {
				got = ns.Name
			}
			c.failf("%s: namespace %s, expected urn:%s", p, got, x.ns)
		}
	}
	if x.kind == "leaf" || x.kind == "leaf-list" {
		if e.Type == nil {
			c.failf("%s: no resolved type", p)
		} else if got := TypeKindToName[e.Type.Kind]; got != x.typ {
			c.failf("%s: type %s, expected %s", p, got, x.typ)
		}
		got := e.DefaultValues()
		if strings.Join(got, "|") != strings.Join(x.defaults(), "|") {
			c.failf("%s: default %q, expected %q", p, got, x.defaults())
		}
		if e.Units != x.units && !(e.Units == "" && e.Type != nil && e.Type.Units == x.units) {
			c.failf("%s: units %q, expected %q", p, e.Units, x.units)
		}
	}
	// read-only exactly when the nearest explicit config statement on the way up
	// says false, or the node lies in the output of an rpc or action (C12)
	wantRO, decided := false, false
	for y := x; y != nil; y = y.parent {
		if y.kind == "output" {
			wantRO = true
			break
		}
		if !decided && y.config != "" {
			wantRO, decided = y.config == "false", true
		}
	}
	if got := e.ReadOnly(); got != wantRO {
		c.failf("%s: ReadOnly() = %v, expected %v", p, got, wantRO)
	}
	wantCfg := TSUnset
	switch x.config {
	case "true":
		wantCfg = TSTrue
	case "false":
		wantCfg = TSFalse
	}
	if e.Config != wantCfg {
		c.failf("%s: config %v, expected %q", p, e.Config, x.config)
	}
	wantMand := TSUnset
	switch x.mandatory {
	case "true":
		wantMand = TSTrue
	case "false":
		wantMand = TSFalse
	}
	if e.Mandatory != wantMand {
		c.failf("%s: mandatory %v, expected %q", p, e.Mandatory, x.mandatory)
	}
	if x.kind == "list" || x.kind == "leaf-list" {
		if e.ListAttr == nil {
			c.failf("%s: no list attributes", p)
		} else {
			wmin, wmax := uint64(0), uint64(18446744073709551615)
			if x.min != "" {
				fmt.Sscan(x.min, &wmin)
			}
			if x.max != "" && x.max != "unbounded" {
				fmt.Sscan(x.max, &wmax)
			}
			if e.ListAttr.MinElements != wmin || e.ListAttr.MaxElements != wmax {
				c.failf("%s: min/max-elements %d/%d, expected %d/%d", p, e.ListAttr.MinElements, e.ListAttr.MaxElements, wmin, wmax)
			}
		}
	}
	// children
	kids := map[string]*Entry{}
	for k, v := range e.Dir {
		kids[k] = v
	}
	if e.RPC != nil {
		if e.RPC.Input != nil {
			kids["input"] = e.RPC.Input
		}
		if e.RPC.Output != nil {
			kids["output"] = e.RPC.Output
		}
	}
	for _, k := range x.kids {
		ke := kids[k.name]
		delete(kids, k.name)
		if ke == nil && (k.kind == "input" || k.kind == "output") && len(k.kids) == 0 {
			continue
		}
		c.compare(ke, k, e)
	}
	for name, ke := range kids {
		if (name == "input" || name == "output") && len(ke.Dir) == 0 {
			continue
		}
		c.failf("%s: has a child %q that the schema does not define there", p, name)
	}
}

func gxCompareAll(ms *Modules, ex *gxExpander) (fails []string, nodes int) {
	c := &gxCmp{seen: map[*Entry]string{}, attrs: map[*ListAttr]string{}, rpcs: map[*RPCEntry]string{}}
	var names []string
	for n := range ex.roots {
		names = append(names, n)
	}
	sort.Strings(names)
	for _, n := range names {
		m := ms.Modules[n]
		if m == nil {
			c.failf("module %s is not loaded", n)
			continue
		}
		c.compare(ToEntry(m), ex.roots[n], nil)
	}
	return c.fails, c.nodes
}

// ---------------------------------------------------------------------------
// random schemas

type gxGen struct {
	rng                 interface{ Intn(int) int }
	mods                []*gsMod
	nGroup, nAug, nDev  int
	id                  int
	groupings           []*gxGrouping
	instancePaths       [][2]string // (module index as text, absolute path with the prefixes of that module) of container instances
	layered             bool        // a module imports only the modules made before it: loading them in that order, every intermediate set is complete
}

type gxGrouping struct {
	stmt  *gsStmt
	host  *gsStmt // statement whose child it is
	mod   *gsMod
	depth int
}

// impPrefixes: the import prefixes of m in a fixed order (map iteration would
// make the generated schema depend on more than the seed).
func impPrefixes(m *gsMod) []string {
	var pf []string
	for p := range m.imports {
		pf = append(pf, p)
	}
	sort.Strings(pf)
	return pf
}

// rootList: the expected trees in a fixed order.
func (ex *gxExpander) rootList() []*gxNode {
	var names []string
	for n := range ex.roots {
		names = append(names, n)
	}
	sort.Strings(names)
	var out []*gxNode
	for _, n := range names {
		out = append(out, ex.roots[n])
	}
	return out
}

func (g *gxGen) pick(s []string) string { return s[g.rng.Intn(len(s))] }

func (g *gxGen) fresh(p string) string { g.id++; return fmt.Sprintf("%s%d", p, g.id) }

// modules: 1..3 modules, module 0 sometimes with a submodule; every module
// imports every other under a prefix of its own choosing; every module (and
// submodule) defines a typedef t of a different built-in kind.
func (g *gxGen) mkModules() {
	kinds := []string{"int8", "string", "boolean", "uint16"}
	n := 1 + g.rng.Intn(3)
	var tops []*gsMod
	for i := 0; i < n; i++ {
		m := &gsMod{name: fmt.Sprintf("m%d", i), prefix: []string{"p", "q", "own"}[g.rng.Intn(3)], imports: map[string]*gsMod{}}
		m.stmt = gs("module", m.name, gs("typedef", "t", gs("type", kinds[i])))
		if g.rng.Intn(2) == 0 {
			m.stmt.kids[0].add(gs("default", map[string]string{"int8": "7", "string": "dflt", "boolean": "true", "uint16": "9"}[kinds[i]]))
		}
		tops = append(tops, m)
		g.mods = append(g.mods, m)
	}
	if g.rng.Intn(2) == 0 {
		m := tops[0]
		s := &gsMod{name: "s0", prefix: m.prefix, belongs: m, imports: map[string]*gsMod{}}
		s.stmt = gs("submodule", s.name, gs("typedef", "ts", gs("type", kinds[3])))
		m.subs = append(m.subs, s)
		g.mods = append(g.mods, s)
	}
	pool := []string{"a", "b", "c", "d", "p", "q"}
	for _, m := range g.mods {
		off := g.rng.Intn(len(pool))
		k := 0
		for oi, o := range tops {
			if o == m.owner() {
				continue
			}
			if g.layered {
				mi := 0
				for j, t := range tops {
					if t == m.owner() {
						mi = j
					}
				}
				if oi > mi {
					continue
				}
			}
			for pool[(off+k)%len(pool)] == m.prefix {
				k++
			}
			m.imports[pool[(off+k)%len(pool)]] = o
			k++
		}
	}
}

func (g *gxGen) typeRef(m *gsMod) string {
	switch g.rng.Intn(5) {
	case 0:
		return g.pick([]string{"string", "int32", "uint8", "boolean"})
	case 1:
		for _, p := range impPrefixes(m) {
			return p + ":t"
		}
		if m.belongs != nil {
			return "ts"
		}
		return "t"
	case 2:
		if m.belongs != nil {
			return m.prefix + ":ts"
		}
		return m.prefix + ":t"
	default:
		if m.belongs != nil && g.rng.Intn(2) == 0 {
			return "ts"
		}
		if m.belongs != nil {
			return g.pick([]string{"string", "int32"}) // a submodule does not see the typedefs of its module
		}
		return "t"
	}
}

// dataNodes: a few random data definitions with names that start with tag.
func (g *gxGen) dataNodes(m *gsMod, tag string, depth int) []*gsStmt {
	var out []*gsStmt
	for n := 1 + g.rng.Intn(3); n > 0; n-- {
		switch g.rng.Intn(7) {
		case 0, 1:
			lf := gs("leaf", g.fresh(tag+"l"), gs("type", g.typeRef(m)))
			if g.rng.Intn(4) == 0 {
				lf.add(gs("config", g.pick([]string{"true", "false"})))
			}
			if g.rng.Intn(5) == 0 {
				lf.add(gs("mandatory", "true"))
			} else if g.rng.Intn(4) == 0 {
				lf.add(gs("default", "5"))
			}
			out = append(out, lf)
		case 2:
			ll := gs("leaf-list", g.fresh(tag+"ll"), gs("type", g.typeRef(m)))
			if g.rng.Intn(3) == 0 {
				ll.add(gs("min-elements", "1"), gs("max-elements", "8"))
			} else if g.rng.Intn(3) == 0 {
				ll.add(gs("default", "d1"), gs("default", "d2"), gs("default", "d3"))
			}
			out = append(out, ll)
		case 3:
			if depth < 2 {
				c := gs("container", g.fresh(tag+"c"), g.dataNodes(m, tag, depth+1)...)
				if g.rng.Intn(4) == 0 {
					c.add(gs("config", g.pick([]string{"true", "false"})))
				}
				out = append(out, c)
			}
		case 4:
			if depth < 2 {
				l := gs("list", g.fresh(tag+"li"), gs("key", "k"), gs("leaf", "k", gs("type", "string")))
				if g.rng.Intn(3) == 0 {
					l.add(gs("max-elements", "5"))
				}
				l.add(g.dataNodes(m, tag, depth+1)...)
				out = append(out, l)
			}
		case 5:
			if depth < 2 {
				ch := gs("choice", g.fresh(tag+"ch"))
				ch.add(gs("case", g.fresh(tag+"ca"), gs("leaf", g.fresh(tag+"l"), gs("type", g.typeRef(m)))))
				ch.add(gs("leaf", g.fresh(tag+"sh"), gs("type", "string"))) // shorthand member
				out = append(out, ch)
			}
		case 6:
			if depth < 2 && depth > 0 {
				out = append(out, gs("action", g.fresh(tag+"act"),
					gs("input", "", gs("leaf", g.fresh(tag+"in"), gs("type", g.typeRef(m)))),
					gs("output", "", gs("leaf", g.fresh(tag+"out"), gs("type", "string"), gs("config", g.pick([]string{"true", "false"})))))) // (a config statement has no effect inside an output)
			}
		}
	}
	if len(out) == 0 {
		out = append(out, gs("leaf", g.fresh(tag+"l"), gs("type", "string")))
	}
	return out
}

// groupingRef: the text by which the grouping can be named from statement host
// of module m, or "" when it is not visible from there.
func (g *gxGen) visible(gr *gxGrouping, m *gsMod, chain []*gsStmt) string {
	for _, c := range chain {
		if c == gr.host {
			if g.rng.Intn(4) == 0 {
				return m.prefix + ":" + gr.stmt.arg
			}
			return gr.stmt.arg
		}
	}
	top := gr.host == gr.mod.stmt
	if !top {
		return ""
	}
	if gr.mod.owner() == m.owner() {
		if gr.mod == m || (m.belongs == nil && gr.mod.belongs == m) {
			return gr.stmt.arg
		}
		return ""
	}
	for _, p := range impPrefixes(m) {
		if m.imports[p] == gr.mod.owner() {
			return p + ":" + gr.stmt.arg
		}
	}
	return ""
}

// mkGroupings defines groupings at module / submodule top level, inside
// containers and inside other groupings, with a small pool of names so that
// they shadow one another; bodies use earlier groupings that are visible.
func (g *gxGen) mkGroupings() {
	names := []string{"g", "h", "k"}
	for i := 0; i < g.nGroup; i++ {
		m := g.mods[g.rng.Intn(len(g.mods))]
		host := m.stmt
		chain := []*gsStmt{m.stmt}
		depth := 0
		// sometimes inside an earlier grouping of the same module, or inside a fresh container
		place := g.rng.Intn(8)
		if place <= 1 {
			var cands []*gxGrouping
			for _, o := range g.groupings {
				if o.mod == m && o.depth == 0 {
					cands = append(cands, o)
				}
			}
			if len(cands) > 0 {
				o := cands[g.rng.Intn(len(cands))]
				host, chain, depth = o.stmt, []*gsStmt{m.stmt, o.stmt}, 1
			}
		} else if place == 2 {
			c := gs("container", g.fresh("hc"))
			m.stmt.add(c)
			host, chain, depth = c, []*gsStmt{m.stmt, c}, 1
		} else if place <= 5 {
			// inside a container or list that exists already, at any depth
			type cand struct {
				s     *gsStmt
				chain []*gsStmt
			}
			var cands []cand
			var walk func(s *gsStmt, chain []*gsStmt)
			walk = func(s *gsStmt, chain []*gsStmt) {
				for _, k := range s.kids {
					kc := append(append([]*gsStmt{}, chain...), k)
					if (k.kw == "container" || k.kw == "list") && len(chain) >= 2 {
						cands = append(cands, cand{k, kc})
					}
					if k.kw == "container" || k.kw == "list" || k.kw == "grouping" || k.kw == "choice" || k.kw == "case" {
						walk(k, kc)
					}
				}
			}
			walk(m.stmt, []*gsStmt{m.stmt})
			if len(cands) > 0 {
				c := cands[g.rng.Intn(len(cands))]
				host, chain, depth = c.s, c.chain, 2
			}
		}
		name := names[g.rng.Intn(len(names))]
		dup := false
		for _, k := range host.kids {
			dup = dup || (k.kw == "grouping" && k.arg == name)
		}
		if dup {
			continue
		}
		gr := &gxGrouping{stmt: gs("grouping", name), host: host, mod: m, depth: depth}
		tag := fmt.Sprintf("g%d", i)
		gr.stmt.add(g.dataNodes(m, tag, 0)...)
		// uses of earlier groupings, resolved from inside this grouping
		for _, o := range g.groupings {
			if o.stmt == host {
				continue // not the grouping this one is nested in: that would be a cycle
			}
			if g.rng.Intn(4) == 0 {
				if ref := g.visible(o, m, append(chain, gr.stmt)); ref != "" {
					gr.stmt.add(gs("container", g.fresh(tag+"u"), gs("uses", ref)))
				}
			}
		}
		host.add(gr.stmt)
		g.groupings = append(g.groupings, gr)
		// a grouping nested in a grouping is used by it
		if host.kw == "grouping" {
			host.add(gs("container", g.fresh(tag+"n"), gs("uses", name)))
		}
		// a grouping defined deep inside the tree is used right there
		if depth == 2 {
			host.add(gs("container", g.fresh(tag+"d"), gs("uses", name)))
		}
		// a container that was made to host a local grouping also uses it
		if host.kw == "container" && depth == 1 {
			host.add(gs("uses", name))
			g.instancePaths = append(g.instancePaths, [2]string{m.name, "/" + m.prefix + ":" + host.arg})
		}
	}
}

// mkInstances: containers at module / submodule top level that use groupings.
func (g *gxGen) mkInstances() {
	for _, m := range g.mods {
		for n := 1 + g.rng.Intn(3); n > 0; n-- {
			c := gs("container", g.fresh("inst"))
			used := false
			for _, gr := range g.groupings {
				if g.rng.Intn(3) == 0 {
					if ref := g.visible(gr, m, []*gsStmt{m.stmt}); ref != "" {
						// each use in a container of its own: two uses of one grouping side by side would collide
						c.add(gs("container", g.fresh("use"), gs("uses", ref)))
						used = true
					}
				}
			}
			if !used {
				c.add(g.dataNodes(m, "own", 1)...)
			}
			m.stmt.add(c)
			g.instancePaths = append(g.instancePaths, [2]string{m.name, "/" + m.prefix + ":" + c.arg})
		}
	}
}

func (g *gxGen) modByName(n string) *gsMod {
	for _, m := range g.mods {
		if m.name == n {
			return m
		}
	}
	return nil
}

// pathFrom writes the absolute path of x with the prefixes of module m (every
// step prefixed by the prefix under which m knows the module owning the tree).
func (g *gxGen) pathFrom(m *gsMod, x *gxNode) string {
	var steps []string
	root := x
	for ; root.parent != nil; root = root.parent {
		steps = append([]string{root.name}, steps...)
	}
	pfx := ""
	if root.name == m.owner().name {
		pfx = m.prefix
	} else {
		for _, p := range impPrefixes(m) {
			if m.imports[p].name == root.name {
				pfx = p
			}
		}
	}
	if pfx == "" {
		return ""
	}
	var sb strings.Builder
	for _, s := range steps {
		sb.WriteString("/" + pfx + ":" + s)
	}
	return sb.String()
}

// topNodes: the base tree of a module: containers, an rpc with input and
// output, a notification.
func (g *gxGen) topNodes(m *gsMod) {
	for n := 1 + g.rng.Intn(2); n > 0; n-- {
		m.stmt.add(gs("container", g.fresh("top"), g.dataNodes(m, "b", 1)...))
	}
	if g.rng.Intn(2) == 0 {
		m.stmt.add(gs("rpc", g.fresh("rpc"),
			gs("input", "", gs("leaf", g.fresh("in"), gs("type", "string"))),
			gs("output", "", gs("leaf", g.fresh("out"), gs("type", "string")))))
	}
	if g.rng.Intn(2) == 0 {
		m.stmt.add(gs("notification", g.fresh("ntf"), gsWithout(g.dataNodes(m, "n", 1), "action")...))
	}
}

// gsWithout removes every statement of the given keyword (an action cannot
// stand inside a notification).
func gsWithout(ss []*gsStmt, kw string) []*gsStmt {
	var strip func(ss []*gsStmt) []*gsStmt
	strip = func(ss []*gsStmt) []*gsStmt {
		var out []*gsStmt
		for _, s := range ss {
			if s.kw == kw {
				continue
			}
			s.kids = strip(s.kids)
			if (s.kw == "container" || s.kw == "list") && len(s.kids) == 0 {
				s.kids = append(s.kids, gs("leaf", "only", gs("type", "string")))
			}
			out = append(out, s)
		}
		return out
	}
	out := strip(ss)
	if len(out) == 0 {
		out = append(out, gs("leaf", "only", gs("type", "string")))
	}
	return out
}

// prefixFor: the prefix under which module m knows the module called name.
func (g *gxGen) prefixFor(m *gsMod, name string) string {
	if m.owner().name == name {
		return m.prefix
	}
	for _, p := range impPrefixes(m) {
		if m.imports[p].name == name {
			return p
		}
	}
	return ""
}

// nsPath writes the absolute path of x as module m has to write it: every
// step carries the prefix of the module the node belongs to.
func (g *gxGen) nsPath(m *gsMod, x *gxNode) string {
	var steps []string
	for n := x; n.parent != nil; n = n.parent {
		steps = append([]string{g.prefixFor(m, n.ns) + ":" + n.name}, steps...)
	}
	return "/" + strings.Join(steps, "/")
}

func gxCollect(x *gxNode, pred func(*gxNode) bool, out *[]*gxNode) {
	if pred(x) {
		*out = append(*out, x)
	}
	for _, k := range x.kids {
		gxCollect(k, pred, out)
	}
}

// model expands what has been generated so far (augments applied).
func (g *gxGen) model() *gxExpander {
	ex := &gxExpander{mods: g.mods}
	ex.expandAll()
	ex.applyAugments()
	return ex
}

// ---------------------------------------------------------------------------
// deviations (RFC 7950 7.20.3), applied to the expected tree in written order

func (ex *gxExpander) applyDeviations(ignoreNotSupported bool) {
	for _, m := range ex.mods {
		for _, dv := range m.stmt.kids {
			if dv.kw != "deviation" {
				continue
			}
			t := ex.lookup(m, dv.arg)
			if t == nil || t.parent == nil {
				ex.errs = append(ex.errs, "deviation target not found: "+dv.arg)
				continue
			}
			isListy := t.kind == "list" || t.kind == "leaf-list"
			for _, d := range dv.kids {
				if d.kw != "deviate" {
					continue
				}
				switch d.arg {
				case "not-supported":
					if !ignoreNotSupported {
						p := t.parent
						for i, k := range p.kids {
							if k == t {
								p.kids = append(p.kids[:i:i], p.kids[i+1:]...)
								break
							}
						}
					}
				case "add", "replace":
					var defs []string
					for _, k := range d.kids {
						switch k.kw {
						case "config":
							t.config = k.arg
						case "mandatory":
							t.mandatory = k.arg
						case "units":
							t.units = k.arg
						case "default":
							defs = append(defs, k.arg)
						case "min-elements", "max-elements":
							if !isListy {
								ex.errs = append(ex.errs, k.kw+" on a node that is neither list nor leaf-list: "+dv.arg)
							} else if k.kw == "min-elements" {
								t.min = k.arg
							} else {
								t.max = k.arg
							}
						case "type":
							kind, td, _ := ex.resolveType(gxScope{m, []*gsStmt{m.stmt, dv, d}}, k.arg, 0)
							t.typ, t.typeDef = kind, td
						}
					}
					if len(defs) > 0 {
						switch {
						case d.arg == "replace":
							t.def = defs
						case t.kind == "leaf-list":
							t.def = append(append([]string{}, t.def...), defs...)
						case len(defs) > 1:
							ex.errs = append(ex.errs, "more than one default added to a leaf: "+dv.arg)
						case len(t.def) != 0:
							ex.errs = append(ex.errs, "default added where one exists: "+dv.arg)
						default:
							t.def = defs
						}
					}
				case "delete":
					for _, k := range d.kids {
						switch k.kw {
						case "config":
							t.config = ""
						case "mandatory":
							t.mandatory = ""
						case "default":
							switch {
							case t.kind == "leaf-list":
								ex.errs = append(ex.errs, "delete of a leaf-list default: "+dv.arg)
							case len(t.def) == 0:
								ex.errs = append(ex.errs, "delete of a default that does not exist: "+dv.arg)
							case t.def[0] != k.arg:
								ex.errs = append(ex.errs, "delete of a default with another value: "+dv.arg)
							default:
								t.def = nil
							}
						case "min-elements", "max-elements":
							cur, unset := t.min, "0"
							if k.kw == "max-elements" {
								cur, unset = t.max, "unbounded"
							}
							if cur == "" {
								cur = unset
							}
							switch {
							case !isListy:
								ex.errs = append(ex.errs, k.kw+" on a node that is neither list nor leaf-list: "+dv.arg)
							case cur != k.arg:
								ex.errs = append(ex.errs, "delete of "+k.kw+" with another value: "+dv.arg)
							case k.kw == "min-elements":
								t.min = ""
							default:
								t.max = ""
							}
						}
					}
				default:
					ex.errs = append(ex.errs, "unknown deviate kind "+d.arg)
				}
			}
		}
	}
}
