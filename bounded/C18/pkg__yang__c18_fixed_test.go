package yang

// Fixed histories for C18 (found by an independent reviewer of the unchanged tree, all four
// repaired): the namespace lookup after a later load, imports bound by an earlier run, the
// search path after a refused file, ClearEntryCache after Process. Each compares the history
// with what a fresh set gives.

import (
	"fmt"
	"io/ioutil"
	"os"
	"path/filepath"
	"sort"
	"testing"
)

// F1: positive namespace cache goes stale when a later load makes the namespace ambiguous.
func govcC18FixedNamespaceCacheStale(fail func(string, ...interface{})) {
	a := `module a { namespace "urn:x"; prefix a; }`
	b := `module b { namespace "urn:x"; prefix b; }`
	inc := NewModules()
	if err := inc.Parse(a, "a.yang"); err != nil {
		{ fail("%v", err); return }
	}
	inc.Process()
	if _, err := inc.FindModuleByNamespace("urn:x"); err != nil {
		{ fail("%v", err); return }
	}
	if err := inc.Parse(b, "b.yang"); err != nil {
		{ fail("%v", err); return }
	}
	inc.Process()
	mi, erri := inc.FindModuleByNamespace("urn:x")

	fresh := NewModules()
	fresh.Parse(a, "a.yang")
	fresh.Parse(b, "b.yang")
	fresh.Process()
	mf, errf := fresh.FindModuleByNamespace("urn:x")
	if (erri == nil) != (errf == nil) {
		fail("incremental: %v, %v; fresh: %v, %v", mi != nil, erri, mf != nil, errf)
	}
}

// F3: a Read that fails on a syntax error has already put the file's directory on the search path.
func govcC18FixedFailedReadLeavesPath(fail func(string, ...interface{})) {
	dir, err := ioutil.TempDir("", "c18")
	if err != nil {
		{ fail("%v", err); return }
	}
	defer os.RemoveAll(dir)
	ioutil.WriteFile(filepath.Join(dir, "bad.yang"), []byte(`module bad { namespace "urn:bad"; prefix`), 0o644)
	ioutil.WriteFile(filepath.Join(dir, "dep.yang"), []byte(`module dep { namespace "urn:dep"; prefix d; typedef T { type string; } }`), 0o644)
	m := `module m { namespace "urn:m"; prefix m; import dep { prefix d; } leaf l { type d:T; } }`

	ms := NewModules()
	if err := ms.Read(filepath.Join(dir, "bad.yang")); err == nil {
		{ fail("bad.yang accepted"); return }
	}
	ms.Parse(m, "m.yang")
	got := fmt.Sprint(ms.Process())

	ref := NewModules()
	ref.Parse(m, "m.yang")
	want := fmt.Sprint(ref.Process())
	if got != want {
		fail("after failed Read: errors %s; never offered: errors %s; Path=%v", got, want, ms.Path)
	}
}

// F4 (marginal): after Process, ClearEntryCache + ToEntry yields a module tree without its submodule.
func govcC18FixedClearEntryCacheAfterProcess(fail func(string, ...interface{})) {
	s := `submodule s { belongs-to m { prefix m; } leaf from-sub { type string; } }`
	m := `module m { namespace "urn:m"; prefix m; include s; leaf own { type string; } }`
	ms := NewModules()
	ms.Parse(s, "s.yang")
	ms.Parse(m, "m.yang")
	if errs := ms.Process(); len(errs) > 0 {
		{ fail("%v", errs); return }
	}
	before := len(ToEntry(ms.Modules["m"]).Dir)
	ms.ClearEntryCache()
	after := len(ToEntry(ms.Modules["m"]).Dir)
	if before != after {
		fail("children before ClearEntryCache %d, after %d", before, after)
	}
}

func unchangedC18ChildNames(e *Entry) []string {
	var s []string
	for k := range e.Dir {
		s = append(s, k)
	}
	sort.Strings(s)
	return s
}

// F2: a uses through an import without revision-date stays bound to the revision present at the first run,
// while typedefs through the same import follow the newest revision.
func govcC18FixedGroupingImportBindingStale(fail func(string, ...interface{})) {
	a1 := `module a { namespace "urn:a"; prefix a; revision 2020-01-01; typedef T { type string; } grouping g { leaf old { type string; } } }`
	a2 := `module a { namespace "urn:a"; prefix a; revision 2021-01-01; typedef T { type uint8; } grouping g { leaf new { type string; } } }`
	m := `module m { namespace "urn:m"; prefix m; import a { prefix a; } leaf l { type a:T; } container c { uses a:g; } }`
	show := func(ms *Modules) string {
		errs := ms.Process()
		e := ToEntry(ms.Modules["m"])
		return fmt.Sprintf("errs=%v l=%v c=%v", errs, e.Dir["l"].Type.Kind, unchangedC18ChildNames(e.Dir["c"]))
	}
	inc := NewModules()
	inc.Parse(a1, "a1.yang")
	inc.Parse(m, "m.yang")
	_ = show(inc)
	inc.Parse(a2, "a2.yang")
	got := show(inc)
	fresh := NewModules()
	fresh.Parse(a1, "a1.yang")
	fresh.Parse(m, "m.yang")
	fresh.Parse(a2, "a2.yang")
	want := show(fresh)
	if got != want {
		fail("incremental %s, fresh %s", got, want)
	}
}

// A type reached through a local typedef follows the imported module as a direct reference
// does: base@2020 and a user, Process, base@2021, Process -- against the three texts in a fresh set.
func govcC18FixedTypedefOverImportedType(fail func(string, ...interface{})) {
	b1 := `module b { namespace "urn:b"; prefix b; revision 2020-01-01; typedef bt { type string; units old; default "o"; } }`
	b2 := `module b { namespace "urn:b"; prefix b; revision 2021-01-01; typedef bt { type uint8; units new; default "7"; } }`
	u := `module u { namespace "urn:u"; prefix u; import b { prefix b; } typedef ut { type b:bt; } typedef ut2 { type ut; } leaf direct { type b:bt; } leaf via { type ut; } leaf via2 { type ut2; } }`
	show := func(ms *Modules) string {
		errs := ms.Process()
		e := ToEntry(ms.Modules["u"])
		out := fmt.Sprintf("errs=%v", errs)
		for _, n := range []string{"direct", "via", "via2"} {
			if l := e.Dir[n]; l != nil && l.Type != nil {
				out += fmt.Sprintf(" %s=%v/%s/%v", n, l.Type.Kind, l.Type.Units, l.DefaultValues())
			}
		}
		return out
	}
	inc := NewModules()
	inc.Parse(b1, "b1.yang")
	inc.Parse(u, "u.yang")
	_ = show(inc)
	inc.Parse(b2, "b2.yang")
	got := show(inc)
	fresh := NewModules()
	fresh.Parse(b1, "b1.yang")
	fresh.Parse(u, "u.yang")
	fresh.Parse(b2, "b2.yang")
	if want := show(fresh); got != want {
		fail("incremental %s, fresh %s", got, want)
	}
	// and an unknown type through a typedef is forgotten once the module that defines it is there
	inc = NewModules()
	inc.Parse(u, "u.yang")
	_ = show(inc)
	inc.Parse(b2, "b2.yang")
	got = show(inc)
	fresh = NewModules()
	fresh.Parse(u, "u.yang")
	fresh.Parse(b2, "b2.yang")
	if want := show(fresh); got != want {
		fail("after the missing module arrived: incremental %s, fresh %s", got, want)
	}
}

func TestGovcBoundedC18FixedHistories(t *testing.T) {
	n := 0
	run := func(name string, f func(func(string, ...interface{}))) {
		n++
		f(func(format string, a ...interface{}) {
			fmt.Printf("GOVC-FAIL name=c18-fixed-histories %s: %s\n", name, fmt.Sprintf(format, a...))
		})
	}
	run("namespace lookup after a later load", govcC18FixedNamespaceCacheStale)
	run("search path after a refused file", govcC18FixedFailedReadLeavesPath)
	run("ClearEntryCache after Process", govcC18FixedClearEntryCacheAfterProcess)
	run("imports bound by an earlier run", govcC18FixedGroupingImportBindingStale)
	run("a typedef over an imported type", govcC18FixedTypedefOverImportedType)
	fmt.Printf("GOVC-BOUNDED name=c18-fixed-histories bound=%d_fixed_histories_against_a_fresh_set evaluations=%d distinct=%d\n", n, n, n)
}
