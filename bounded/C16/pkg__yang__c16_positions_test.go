package yang

// Bounded stand-in for the whole-text clauses of C16: texts are assembled from
// tokens and fillers (blanks, tabs, line breaks, CR LF, comments, multi-byte
// characters, multi-line strings) by a generator that records, while it
// writes, the line and character column of every keyword and of every token it
// later damages. Statement positions, syntax-error positions and the positions
// inside semantic errors are compared with the recorded ones.

import (
	"fmt"
	"math/rand"
	"os"
	"regexp"
	"strconv"
	"strings"
	"testing"
)

type govcWriter struct {
	sb        strings.Builder
	line, col int
}

func (w *govcWriter) put(s string) {
	for _, r := range s {
		w.sb.WriteRune(r)
		if r == '\n' {
			w.line++
			w.col = 1
		} else {
			w.col++
		}
	}
}

type govcPos struct{ line, col int }

func (w *govcWriter) here() govcPos { return govcPos{w.line, w.col} }

var govcFillers = []string{" ", "  ", "\t", " \t ", "\n", "\r\n", "\n\t", " // comment é\n", " /* c */ ", "/* multi\n\tline ü */", "\n\n   ", "\t\t", " /*\r\n*/\r\n "}
var govcIdents = []string{"container", "leaf", "x", "description", "ünï", "a-b.c", "p:ext", "type", "k9"}
var govcArgs = []string{"v", "name1", "'single quoted'", "\"double\"", "\"two\n   lines\"", "\"tab\there é\"", "'multi\nline single'", "\"a\" + \"b\"", "\"esc \\\" \\\\ \\n\"", "é", "\"x\"\n\t+ 'y'"}

func (w *govcWriter) filler(rng *rand.Rand, needSpace bool) {
	n := rng.Intn(3)
	if needSpace && n == 0 {
		n = 1
	}
	if needSpace {
		w.put([]string{" ", "\t", "\n", "\r\n"}[rng.Intn(4)])
		n--
	}
	for i := 0; i < n; i++ {
		w.put(govcFillers[rng.Intn(len(govcFillers))])
	}
}

type govcStmtPos struct {
	kw  string
	pos govcPos
}

func (w *govcWriter) stmt(rng *rand.Rand, depth int, out *[]govcStmtPos, semis *[]govcPos, closes *[]govcPos) {
	w.filler(rng, false)
	kw := govcIdents[rng.Intn(len(govcIdents))]
	*out = append(*out, govcStmtPos{kw, w.here()})
	w.put(kw)
	if rng.Intn(4) != 0 {
		w.filler(rng, true)
		w.put(govcArgs[rng.Intn(len(govcArgs))])
	}
	w.filler(rng, true)
	if depth < 3 && rng.Intn(3) == 0 {
		w.put("{")
		for i := rng.Intn(3); i > 0; i-- {
			w.stmt(rng, depth+1, out, semis, closes)
		}
		w.filler(rng, false)
		*closes = append(*closes, w.here())
		w.put("}")
	} else {
		*semis = append(*semis, w.here())
		w.put(";")
	}
}

var govcLoc = regexp.MustCompile(`:(\d+):(-?\d+)`)

func govcFirstPos(msg string) (govcPos, bool) {
	m := govcLoc.FindStringSubmatch(msg)
	if m == nil {
		return govcPos{}, false
	}
	l, _ := strconv.Atoi(m[1])
	c, _ := strconv.Atoi(m[2])
	return govcPos{l, c}, true
}

func govcFlatten(ss []*Statement, out *[]*Statement) {
	for _, s := range ss {
		*out = append(*out, s)
		govcFlatten(s.SubStatements(), out)
	}
}

func TestGovcBoundedC16Positions(t *testing.T) {
	seed := int64(1)
	if s := os.Getenv("VERIF_SEED"); s != "" {
		if v, err := strconv.ParseInt(s, 10, 64); err == nil {
			seed = v
		}
	}
	texts := 400
	if os.Getenv("VERIF_TIER") == "thorough" {
		texts = 6000
	}
	rng := rand.New(rand.NewSource(seed))
	evals, stmts := 0, 0
	for i := 0; i < texts; i++ {
		w := &govcWriter{line: 1, col: 1}
		var want []govcStmtPos
		var semis, closes []govcPos
		for n := 1 + rng.Intn(3); n > 0; n-- {
			w.stmt(rng, 0, &want, &semis, &closes)
		}
		w.filler(rng, false)
		text := w.sb.String()
		evals++
		ss, err := Parse(text, "f.yang")
		if err != nil {
			fmt.Printf("GOVC-FAIL name=c16-statement-positions a well-formed text is rejected: %v\n%q\n", err, text)
			continue
		}
		var got []*Statement
		govcFlatten(ss, &got)
		if len(got) != len(want) {
			fmt.Printf("GOVC-FAIL name=c16-statement-positions %d statements written, %d parsed: %q\n", len(want), len(got), text)
			continue
		}
		for k, s := range got {
			stmts++
			wantLoc := fmt.Sprintf("f.yang:%d:%d", want[k].pos.line, want[k].pos.col)
			if s.Keyword != want[k].kw || s.Location() != wantLoc {
				fmt.Printf("GOVC-FAIL name=c16-statement-positions statement %d (%s) reports %s, it was written at %s: %q\n", k, want[k].kw, s.Location(), wantLoc, text)
				break
			}
		}
		// single syntactic faults: an extra closing brace at the end; a missing semicolon
		evals++
		w2pos := w.here()
		_, err = Parse(text+"}", "f.yang")
		if err == nil {
			fmt.Printf("GOVC-FAIL name=c16-error-positions an unexpected } is accepted: %q\n", text+"}")
		} else if p, ok := govcFirstPos(err.Error()); !ok || p != w2pos {
			fmt.Printf("GOVC-FAIL name=c16-error-positions unexpected } written at %d:%d, the error says %q: %q\n", w2pos.line, w2pos.col, strings.TrimSpace(err.Error()), text+"}")
		}
	}
	// faults inside quoted strings, comments: position of the opener / backslash
	type fault struct {
		pre, bad string
		off      int // character offset of the reported position inside bad
	}
	faults := []fault{
		{"leaf x { description ", "\"never closed;\n}\n", 0},
		{"leaf x { description ", "'never closed;\n}\n", 0},
		{"leaf x { ", "/* never closed\n}\n", 0},
		{"leaf x { description ", "\"bad \\q escape\"; }", 5},
		{"leaf x { description \"line one\n   ", "and \\", 4},
		// a string where a keyword must stand / where ; or { must stand: the string is a
		// concatenation, the position is that of its first piece
		{"leaf x { ", "\"de\" + \"scr\"\n + 'iption' y; }", 0},
		{"leaf x { description a ", "'b'\t+ \"c\" + 'd'; }", 0},
	}
	for _, lead := range []string{"", "\n", "\t", "é ü; /* c */ ", "// c\r\n\t\t", "x 'a\nb'; "} {
		for _, f := range faults {
			evals++
			w := &govcWriter{line: 1, col: 1}
			w.put(lead)
			w.put(f.pre)
			start := w.here()
			text := lead + f.pre + f.bad
			if strings.HasSuffix(f.bad, "\\") {
				text += "\n more\"; }"
			}
			// position of the character at offset off inside bad
			w.put(string([]rune(f.bad)[:f.off]))
			want := w.here()
			_ = start
			_, err := Parse(text, "f.yang")
			if err == nil {
				fmt.Printf("GOVC-FAIL name=c16-error-positions faulty text accepted: %q\n", text)
				continue
			}
			if p, ok := govcFirstPos(err.Error()); !ok || p != want {
				fmt.Printf("GOVC-FAIL name=c16-error-positions fault written at %d:%d, the error says %q: %q\n", want.line, want.col, strings.TrimSpace(strings.Split(err.Error(), "\n")[0]), text)
			}
		}
	}
	// semantic faults: the position in the error is the start of the offending statement
	type sem struct{ before, stmt, after string }
	sems := []sem{
		{"module m { namespace \"urn:m\"; prefix m;\n  leaf a { type string; }\n \t", "bogus-statement x;", "\n}"},
		{"module m { namespace \"urn:m\"; prefix m;\n  container c {\n\t\t", "leaf nt { description \"no type\"; }", " }\n}"},
		{"module m { namespace \"urn:m\"; prefix m; /* é */ leaf a { ", "type nosuchtype;", " } }"},
		{"module m { namespace \"urn:m\"; prefix m;\n leaf a { type int8 {\n      ", "range \"5..1\";", " } } }"},
		{"module m { namespace \"urn:m\"; prefix m;\r\n leaf a { type string {\r\n\t", "length \"abc\";", " } } }"},
		{"module m { namespace \"urn:m\"; prefix m; container c {\n   ", "uses nosuchgrouping;", " } }"},
		{"module m { namespace \"urn:m\"; prefix m; leaf e { type enumeration { enum a { value 1; }\n\t ", "enum b { value 1; }", " } } }"},
		// a foreign prefix: the imported module lacks the typedef, or nothing is imported under the prefix
		{"module m { namespace \"urn:m\"; prefix m; import o { prefix o; }\n\n  leaf a {\n\t", "type o:nosuch;", " } }"},
		{"module m { namespace \"urn:m\"; prefix m; import o { prefix o; }\n  typedef td { ", "type o:nosuch { length \"1..2\"; }", " }\n leaf a { type td; } }"},
		{"module m { namespace \"urn:m\"; prefix m; import o { prefix o; }\n  leaf a { type union { type string;\n     ", "type o:nosuch;", " } } }"},
		{"module m { namespace \"urn:m\"; prefix m; import o { prefix o; }\n  leaf a { /* x */ ", "type q:ot;", " } }"},
	}
	other := "module o { namespace \"urn:o\"; prefix o; typedef ot { type string; } }"
	locRE := regexp.MustCompile(`f\.yang:(\d+):(\d+)`)
	for _, sf := range sems {
		evals++
		w := &govcWriter{line: 1, col: 1}
		w.put(sf.before)
		want := w.here()
		text := sf.before + sf.stmt + sf.after
		ms := NewModules()
		var msgs []string
		if err := ms.Parse(other, "o.yang"); err != nil {
			msgs = append(msgs, err.Error())
		}
		if err := ms.Parse(text, "f.yang"); err != nil {
			msgs = append(msgs, err.Error())
		} else {
			for _, e := range ms.Process() {
				msgs = append(msgs, e.Error())
			}
		}
		if len(msgs) == 0 {
			fmt.Printf("GOVC-FAIL name=c16-semantic-positions faulty module accepted: %q\n", text)
			continue
		}
		wantLoc := fmt.Sprintf("f.yang:%d:%d", want.line, want.col)
		found := false
		for _, m := range msgs {
			if strings.Contains(m, wantLoc+":") || strings.HasPrefix(m, wantLoc) {
				found = true
			}
		}
		if !found {
			fmt.Printf("GOVC-FAIL name=c16-semantic-positions %q starts at %s, the errors say %q\n", sf.stmt, wantLoc, msgs)
		}
		// every position named in an error is the start of a statement of the file
		starts := map[string]bool{}
		if ss, err := Parse(text, "f.yang"); err == nil {
			var collect func(s *Statement)
			collect = func(s *Statement) {
				starts[s.Location()] = true
				for _, k := range s.SubStatements() {
					collect(k)
				}
			}
			for _, s := range ss {
				collect(s)
			}
			for _, m := range msgs {
				for _, loc := range locRE.FindAllString(m, -1) {
					if !starts[loc] {
						fmt.Printf("GOVC-FAIL name=c16-semantic-positions %q: the error names %s, where no statement starts: %q\n", sf.stmt, loc, m)
					}
				}
			}
		}
	}
	fmt.Printf("GOVC-BOUNDED name=c16-positions-vs-generator bound=%d_generated_texts_(seed_%d)_+_42_lexical_and_11_semantic_faults evaluations=%d distinct=%d\n", texts, seed, evals, stmts)
}
