package yang

// Bounded stand-in for C07: random module sets in which augments -- written in
// any module or submodule, in any position among the other statements -- target
// containers, lists, choices, cases, rpc input and output and notifications of
// any module, including nodes that only exist once another augment or a uses
// expansion has been applied. The expected tree comes from the independent
// expander of the shared model file (augments applied to a fixpoint, every
// grafted node attributed to the augmenting module). Every set is loaded in
// several orders; all must give the expected tree with no error. Sets with one
// bad augment (missing target, target that cannot have children, child name
// that is taken) must produce an error.

import (
	"fmt"
	"math/rand"
	"os"
	"strconv"
	"strings"
	"testing"
)

func TestGovcBoundedC07Augments(t *testing.T) {
	seed := int64(1)
	if s := os.Getenv("VERIF_SEED"); s != "" {
		if v, err := strconv.ParseInt(s, 10, 64); err == nil {
			seed = v
		}
	}
	schemas := 100
	if os.Getenv("VERIF_TIER") == "thorough" {
		schemas = 1500
	}
	rng := rand.New(rand.NewSource(seed))
	evals, nodes, bad := 0, 0, 0
	for n := 0; n < schemas; n++ {
		g := &gxGen{rng: rng, nGroup: rng.Intn(3)}
		g.mkModules()
		for _, m := range g.mods {
			g.topNodes(m)
		}
		g.mkGroupings()
		naug := 2 + rng.Intn(6)
		for a := 0; a < naug; a++ {
			ex := g.model()
			if len(ex.errs) > 0 {
				break
			}
			var targets []*gxNode
			for _, r := range ex.rootList() {
				gxCollect(r, func(x *gxNode) bool { return x.parent != nil && gxCanHaveChildren(x) }, &targets)
			}
			if len(targets) == 0 {
				break
			}
			// prefer what an earlier augment created: chains
			var grafted []*gxNode
			for _, x := range targets {
				if x.parent != nil && x.ns != func() string {
					r := x
					for r.parent != nil {
						r = r.parent
					}
					return r.name
				}() {
					grafted = append(grafted, x)
				}
			}
			x := targets[rng.Intn(len(targets))]
			if len(grafted) > 0 && rng.Intn(2) == 0 {
				x = grafted[rng.Intn(len(grafted))]
			}
			am := g.mods[rng.Intn(len(g.mods))]
			tag := fmt.Sprintf("a%d", a)
			var body []*gsStmt
			switch x.kind {
			case "choice":
				if rng.Intn(2) == 0 {
					body = []*gsStmt{gs("case", g.fresh(tag+"ca"), gs("leaf", g.fresh(tag+"l"), gs("type", g.typeRef(am))))}
				} else {
					body = []*gsStmt{gs("leaf", g.fresh(tag+"sh"), gs("type", "string"))}
				}
			default:
				body = g.dataNodes(am, tag, 1)
				for _, gr := range g.groupings {
					if rng.Intn(4) == 0 {
						if ref := g.visible(gr, am, []*gsStmt{am.stmt}); ref != "" {
							body = append(body, gs("container", g.fresh(tag+"u"), gs("uses", ref)))
						}
					}
				}
			}
			am.stmt.add(gs("augment", g.nsPath(am, x), body...))
		}
		// one bad augment now and then
		wantErr := false
		if rng.Intn(4) == 0 {
			ex := g.model()
			am := g.mods[rng.Intn(len(g.mods))]
			var leaves, dirs []*gxNode
			for _, r := range ex.rootList() {
				gxCollect(r, func(x *gxNode) bool { return x.kind == "leaf" }, &leaves)
				gxCollect(r, func(x *gxNode) bool { return x.kind == "container" && len(x.kids) > 0 && x.parent != nil }, &dirs)
			}
			switch k := rng.Intn(3); {
			case k == 0 && len(dirs) > 0:
				d := dirs[rng.Intn(len(dirs))]
				am.stmt.add(gs("augment", g.nsPath(am, d)+"/"+am.prefix+":no-such-node", gs("leaf", g.fresh("x"), gs("type", "string"))))
				wantErr = true
			case k == 1 && len(leaves) > 0:
				am.stmt.add(gs("augment", g.nsPath(am, leaves[rng.Intn(len(leaves))]), gs("leaf", g.fresh("x"), gs("type", "string"))))
				wantErr = true
			case k == 2 && len(dirs) > 0:
				d := dirs[rng.Intn(len(dirs))]
				am.stmt.add(gs("augment", g.nsPath(am, d), gs("leaf", d.kids[rng.Intn(len(d.kids))].name, gs("type", "string"))))
				wantErr = true
			}
		}
		// the position of a statement among its siblings at module level must not matter
		for _, m := range g.mods {
			rng.Shuffle(len(m.stmt.kids), func(a, b int) { m.stmt.kids[a], m.stmt.kids[b] = m.stmt.kids[b], m.stmt.kids[a] })
		}
		ex := &gxExpander{mods: g.mods}
		ex.expandAll()
		missing := ex.applyAugments()
		for _, r := range ex.rootList() {
			r.fixChoices()
		}
		invalid := len(ex.errs) > 0 || len(missing) > 0
		if wantErr && !invalid {
			fmt.Printf("GOVC-FAIL name=c07-generator the model accepts a set with a bad augment (schema %d)\n", n)
			continue
		}
		if invalid {
			bad++
		}
		var srcs []string
		for _, m := range g.mods {
			srcs = append(srcs, m.text())
		}
		all := strings.Join(srcs, "")
		orders := 3
		if len(srcs) == 1 {
			orders = 1
		}
		for run := 0; run < orders; run++ {
			evals++
			ms := NewModules()
			ok := true
			perm := rng.Perm(len(srcs))
			for _, ix := range perm {
				if err := ms.Parse(srcs[ix], fmt.Sprintf("f%d.yang", ix)); err != nil {
					fmt.Printf("GOVC-FAIL name=c07-augments schema %d does not parse: %v\n%s\n", n, err, srcs[ix])
					ok = false
				}
			}
			if !ok {
				break
			}
			errs := ms.Process()
			if invalid {
				if len(errs) == 0 {
					fmt.Printf("GOVC-FAIL name=c07-augment-errors schema %d (load order %v) has an augment that cannot be applied (%v %v) and is accepted:\n%s\n", n, perm, ex.errs, missing, all)
				}
				continue
			}
			if len(errs) > 0 {
				fmt.Printf("GOVC-FAIL name=c07-augments schema %d (load order %v): every augment can be applied, Process reports %v\n%s\n", n, perm, errs[0], all)
				break
			}
			fails, cnt := gxCompareAll(ms, ex)
			nodes += cnt
			for _, f := range fails {
				fmt.Printf("GOVC-FAIL name=c07-augments schema %d (load order %v): %s\n%s\n", n, perm, f, all)
			}
			if len(fails) > 0 {
				break
			}
		}
	}
	// fixed cases: targets that cannot have children (anydata, anyxml, leaf-list) are reported;
	// an augment one of whose names is taken is reported and not half applied
	for _, fc := range []struct{ what, aug, untouched string }{
		{"an anydata target", `augment "/t:top/t:ad" { leaf z { type string; } }`, "ad"},
		{"an anyxml target", `augment "/t:top/t:ax" { leaf z { type string; } }`, "ax"},
		{"a leaf-list target", `augment "/t:top/t:ll" { leaf z { type string; } }`, "ll"},
		{"a name that is taken", `augment "/t:top" { leaf other { type string; } leaf l { type string; } leaf more { type string; } }`, ""},
	} {
		evals++
		ms := NewModules()
		for i, src := range []string{
			`module t { namespace "urn:t"; prefix t; container top { anydata ad; anyxml ax; leaf-list ll { type string; } leaf l { type string; } } }`,
			`module u { namespace "urn:u"; prefix u; import t { prefix t; } ` + fc.aug + ` }`} {
			if err := ms.Parse(src, fmt.Sprintf("fx%d.yang", i)); err != nil {
				fmt.Printf("GOVC-FAIL name=c07-augments fixed case does not parse: %v\n", err)
			}
		}
		errs := ms.Process()
		if len(errs) == 0 {
			fmt.Printf("GOVC-FAIL name=c07-augment-errors %s: no error reported\n", fc.what)
		}
		top := ToEntry(ms.Modules["t"]).Dir["top"]
		if fc.untouched != "" {
			if n := top.Dir[fc.untouched]; n == nil || len(n.Dir) > 0 {
				fmt.Printf("GOVC-FAIL name=c07-augment-errors %s gained children\n", fc.what)
			}
		} else if len(top.Dir) != 4 {
			fmt.Printf("GOVC-FAIL name=c07-augment-errors %s: the augment is half applied, top has %d children (want the 4 it had)\n", fc.what, len(top.Dir))
		}
	}
	// a long chain: two modules augment each other's additions in turn, ten levels deep, each
	// listing its augments deepest first -- every pass of the retry loop settles one level only,
	// so there are many more passes than modules; all augments find their target in the end
	{
		const depth = 10
		body := map[string][]string{}
		path := "/base:c0"
		for i := 1; i <= depth; i++ {
			pf := "r"
			if i%2 == 1 {
				pf = "l"
			}
			body[pf] = append([]string{fmt.Sprintf("augment %s { container c%d { } }", path, i)}, body[pf]...)
			path += fmt.Sprintf("/%s:c%d", pf, i)
		}
		srcs := []string{
			`module base { namespace "urn:base"; prefix base; container c0 { } }`,
			`module left { namespace "urn:left"; prefix l; import base { prefix base; } import right { prefix r; } ` + strings.Join(body["l"], " ") + ` }`,
			`module right { namespace "urn:right"; prefix r; import base { prefix base; } import left { prefix l; } ` + strings.Join(body["r"], " ") + ` }`,
		}
		for _, order := range [][]int{{0, 1, 2}, {2, 1, 0}, {1, 0, 2}, {2, 0, 1}} {
			evals++
			ms := NewModules()
			for _, ix := range order {
				if err := ms.Parse(srcs[ix], fmt.Sprintf("chain%d.yang", ix)); err != nil {
					fmt.Printf("GOVC-FAIL name=c07-augments the chain does not parse: %v\n", err)
				}
			}
			if errs := ms.Process(); len(errs) > 0 {
				fmt.Printf("GOVC-FAIL name=c07-augments a chain of %d augments alternating between two modules (load order %v): %v\n", depth, order, errs[0])
				continue
			}
			e := ToEntry(ms.Modules["base"])
			for i := 0; i <= depth && e != nil; i++ {
				if e = e.Dir[fmt.Sprintf("c%d", i)]; e == nil {
					fmt.Printf("GOVC-FAIL name=c07-augments a chain of %d augments alternating between two modules (load order %v): c%d is missing\n", depth, order, i)
				}
			}
		}
	}
	fmt.Printf("GOVC-BOUNDED name=c07-augments-vs-model bound=%d_random_module_sets_(<=3_modules,_submodule,_2-7_chained_augments,_shuffled_statements,_seed_%d;_%d_with_a_bad_augment)_x_3_load_orders evaluations=%d distinct=%d\n", schemas, seed, bad, evals, nodes)
}
