package yang

// Bounded stand-in for the graph-theoretic clause of C11: the reported derived
// identities equal the transitive closure computed independently, over random
// derivation graphs spread across modules and submodules with multiple bases,
// equal names in different modules, import prefixes that denote different
// modules in different importers, and modules that share their own prefix; each graph is processed
// several times (map iteration order differs between runs) and the lists must
// be identical every time. Undefined bases and cycles must be errors.

import (
	"fmt"
	"math/rand"
	"os"
	"sort"
	"strconv"
	"strings"
	"testing"
)

type govcIdent struct {
	mod   int
	name  string
	bases []int // indices into the identity list
}

// govcBuildIdentityModules writes the modules. own[m] is the prefix module m
// gives itself; prefixes[m][o] the prefix under which module m imports module
// o; when sub[m] is set the identities of module m are written in a submodule
// s<m> that m includes, and the submodule imports the other modules under its
// own prefixes subPrefixes[m][o]. Prefixes are distinct within one (sub)module
// only: the same prefix may denote different modules in different importers,
// and two modules may give themselves the same prefix.
func govcBuildIdentityModules(ids []govcIdent, nmods int, own []string, prefixes, subPrefixes [][]string, sub []bool) []string {
	var srcs []string
	for m := 0; m < nmods; m++ {
		var sb, body strings.Builder
		fmt.Fprintf(&sb, "module m%d { namespace \"urn:m%d\"; prefix %s;\n", m, m, own[m])
		for o := 0; o < nmods; o++ {
			if o != m {
				fmt.Fprintf(&sb, "  import m%d { prefix %s; }\n", o, prefixes[m][o])
			}
		}
		pf := prefixes[m]
		if sub[m] {
			pf = subPrefixes[m]
			fmt.Fprintf(&sb, "  include s%d;\n", m)
		}
		for _, id := range ids {
			if id.mod != m {
				continue
			}
			fmt.Fprintf(&body, "  identity %s {", id.name)
			for _, b := range id.bases {
				bm := ids[b].mod
				if bm == m {
					if b%2 == 0 {
						fmt.Fprintf(&body, " base %s;", ids[b].name)
					} else {
						fmt.Fprintf(&body, " base %s:%s;", own[m], ids[b].name)
					}
				} else {
					fmt.Fprintf(&body, " base %s:%s;", pf[bm], ids[b].name)
				}
			}
			body.WriteString(" }\n")
		}
		if sub[m] {
			var ss strings.Builder
			fmt.Fprintf(&ss, "submodule s%d { belongs-to m%d { prefix %s; }\n", m, m, own[m])
			for o := 0; o < nmods; o++ {
				if o != m {
					fmt.Fprintf(&ss, "  import m%d { prefix %s; }\n", o, subPrefixes[m][o])
				}
			}
			ss.WriteString(body.String())
			ss.WriteString("}\n")
			srcs = append(srcs, ss.String())
		} else {
			sb.WriteString(body.String())
		}
		// every module refers to every identity, each under its own prefixes (the same
		// text "p:name" may denote different identities in different modules); every
		// other one through a typedef
		for i, id := range ids {
			pfx := ""
			if id.mod != m {
				pfx = prefixes[m][id.mod] + ":"
			} else if i%2 == 1 {
				pfx = own[m] + ":"
			}
			if (i+m)%2 == 0 {
				fmt.Fprintf(&sb, "  leaf ref%d { type identityref { base %s%s; } }\n", i, pfx, id.name)
			} else {
				fmt.Fprintf(&sb, "  typedef tref%d { type identityref { base %s%s; } }\n  leaf ref%d { type tref%d; }\n", i, pfx, id.name, i, i)
			}
		}
		sb.WriteString("}\n")
		srcs = append(srcs, sb.String())
	}
	return srcs
}

// govcDistinctPrefixes draws n prefixes from the pool, all different and
// different from avoid.
func govcDistinctPrefixes(rng *rand.Rand, n int, avoid string) []string {
	pool := []string{"p", "q", "r", "s", "t"}
	rng.Shuffle(len(pool), func(a, b int) { pool[a], pool[b] = pool[b], pool[a] })
	var out []string
	for _, c := range pool {
		if c != avoid && len(out) < n {
			out = append(out, c)
		}
	}
	return out
}

func TestGovcBoundedC11Closure(t *testing.T) {
	seed := int64(1)
	if s := os.Getenv("VERIF_SEED"); s != "" {
		if v, err := strconv.ParseInt(s, 10, 64); err == nil {
			seed = v
		}
	}
	graphs := 60
	if os.Getenv("VERIF_TIER") == "thorough" {
		graphs = 600
	}
	rng := rand.New(rand.NewSource(seed))
	evals, distinct := 0, 0
	for g := 0; g < graphs; g++ {
		nmods := 1 + rng.Intn(3)
		n := 2 + rng.Intn(7)
		names := []string{"a", "b", "c", "d"}
		var ids []govcIdent
		used := map[string]bool{}
		for i := 0; i < n; i++ {
			m := rng.Intn(nmods)
			nm := names[rng.Intn(len(names))]
			if used[fmt.Sprint(m, nm)] {
				nm = fmt.Sprintf("%s%d", nm, i)
			}
			used[fmt.Sprint(m, nm)] = true
			id := govcIdent{mod: m, name: nm}
			// bases only among earlier identities: acyclic
			for b := 0; b < i; b++ {
				if rng.Intn(3) == 0 {
					id.bases = append(id.bases, b)
				}
			}
			ids = append(ids, id)
		}
		own := make([]string, nmods)
		sub := make([]bool, nmods)
		prefixes := make([][]string, nmods)
		subPrefixes := make([][]string, nmods)
		for m := range prefixes {
			own[m] = []string{"p", "q", "own"}[rng.Intn(3)]
			sub[m] = rng.Intn(3) == 0
			prefixes[m] = govcDistinctPrefixes(rng, nmods, own[m])
			subPrefixes[m] = govcDistinctPrefixes(rng, nmods, own[m])
		}
		// reference: transitive derivations
		derived := make([]map[int]bool, n)
		for i := range derived {
			derived[i] = map[int]bool{}
		}
		changed := true
		for changed {
			changed = false
			for i, id := range ids {
				for _, b := range id.bases {
					if !derived[b][i] {
						derived[b][i] = true
						changed = true
					}
					for d := range derived[i] {
						if !derived[b][d] {
							derived[b][d] = true
							changed = true
						}
					}
				}
			}
		}
		srcs := govcBuildIdentityModules(ids, nmods, own, prefixes, subPrefixes, sub)
		distinct++
		var first string
		for run := 0; run < 4; run++ {
			evals++
			ms := NewModules()
			ok := true
			order := rng.Perm(len(srcs))
			for _, ix := range order {
				if err := ms.Parse(srcs[ix], fmt.Sprintf("f%d.yang", ix)); err != nil {
					fmt.Printf("GOVC-FAIL name=c11-identity-closure graph %d does not parse: %v\n", g, err)
					ok = false
				}
			}
			if !ok {
				break
			}
			if errs := ms.Process(); len(errs) > 0 {
				fmt.Printf("GOVC-FAIL name=c11-identity-closure graph %d (acyclic, all bases defined): Process reports %v\n%s\n", g, errs[0], strings.Join(srcs, ""))
				break
			}
			var lines []string
			for i, id := range ids {
				var obj *Identity
				holder := ms.Modules[fmt.Sprintf("m%d", id.mod)]
				if sub[id.mod] {
					holder = ms.SubModules[fmt.Sprintf("s%d", id.mod)]
				}
				for _, x := range holder.Identity {
					if x.Name == id.name {
						obj = x
					}
				}
				if obj == nil {
					fmt.Printf("GOVC-FAIL name=c11-identity-closure graph %d: identity %s not found\n", g, id.name)
					continue
				}
				var got []string
				seen := map[*Identity]bool{}
				for _, v := range obj.Values {
					if seen[v] {
						fmt.Printf("GOVC-FAIL name=c11-identity-closure graph %d: %s lists %s twice\n", g, id.name, v.Name)
					}
					seen[v] = true
					if v == obj {
						fmt.Printf("GOVC-FAIL name=c11-identity-closure graph %d: %s lists itself\n", g, id.name)
					}
					got = append(got, "m"+RootNode(v).Name[1:]+":"+v.Name)
				}
				var want []string
				for d := range derived[i] {
					want = append(want, fmt.Sprintf("m%d:%s", ids[d].mod, ids[d].name))
				}
				gs := append([]string{}, got...)
				sort.Strings(gs)
				sort.Strings(want)
				if strings.Join(gs, ",") != strings.Join(want, ",") {
					fmt.Printf("GOVC-FAIL name=c11-identity-closure graph %d: m%d:%s derives %v, the transitive set is %v\n", g, id.mod, id.name, gs, want)
				}
				lines = append(lines, fmt.Sprintf("%d:%s", i, strings.Join(got, ",")))
				// the identityref leaf sees the same identity
				for rm := 0; rm < nmods; rm++ {
					leaf := ToEntry(ms.Modules[fmt.Sprintf("m%d", rm)]).Dir[fmt.Sprintf("ref%d", i)]
					if leaf == nil || leaf.Type == nil || leaf.Type.IdentityBase != obj {
						fmt.Printf("GOVC-FAIL name=c11-identity-closure graph %d: identityref leaf ref%d of module m%d does not point at m%d:%s\n", g, i, rm, id.mod, id.name)
					}
				}
			}
			cur := strings.Join(lines, ";")
			if first == "" {
				first = cur
			} else if cur != first {
				fmt.Printf("GOVC-FAIL name=c11-identity-order graph %d: the order of derived identities differs between runs: %q vs %q\n", g, first, cur)
				break
			}
		}
	}
	// undefined base and cycles are errors
	for _, bad := range []string{
		"module m { namespace \"urn:m\"; prefix m; identity a { base nosuch; } }",
		"module m { namespace \"urn:m\"; prefix m; identity a { base q:x; } }",
		"module m { namespace \"urn:m\"; prefix m; identity a { base b; } identity b { base c; } identity c { base a; } }",
	} {
		evals++
		ms := NewModules()
		if err := ms.Parse(bad, "m.yang"); err != nil {
			continue
		}
		if errs := ms.Process(); len(errs) == 0 {
			fmt.Printf("GOVC-FAIL name=c11-identity-errors accepted without error: %s\n", bad)
		}
	}
	// random derivation rings with ordinary derivations hanging off their members and
	// roots above them: every run (map order differs) must report the cycle
	for c := 0; c < graphs/2; c++ {
		k := 1 + rng.Intn(4) // ring size (1: an identity based on itself)
		extra := rng.Intn(6)
		var lines []string
		lines = append(lines, "identity top;")
		for i := 0; i < k; i++ {
			l := fmt.Sprintf("identity r%d { base r%d;", i, (i+1)%k)
			if rng.Intn(3) == 0 {
				l += " base top;"
			}
			lines = append(lines, l+" }")
		}
		for x := 0; x < extra; x++ {
			b := fmt.Sprintf("r%d", rng.Intn(k))
			if x > 0 && rng.Intn(3) == 0 {
				b = fmt.Sprintf("x%d", rng.Intn(x))
			}
			l := fmt.Sprintf("identity x%d { base %s;", x, b)
			if rng.Intn(4) == 0 {
				l += fmt.Sprintf(" base r%d;", rng.Intn(k))
			}
			lines = append(lines, l+" }")
		}
		rng.Shuffle(len(lines), func(i, j int) { lines[i], lines[j] = lines[j], lines[i] })
		text := "module m { namespace \"urn:m\"; prefix m;\n  " + strings.Join(lines, "\n  ") + "\n}\n"
		for run := 0; run < 6; run++ {
			evals++
			ms := NewModules()
			if err := ms.Parse(text, "ring.yang"); err != nil {
				fmt.Printf("GOVC-FAIL name=c11-identity-errors ring %d does not parse: %v\n%s", c, err, text)
				break
			}
			if errs := ms.Process(); len(errs) == 0 {
				fmt.Printf("GOVC-FAIL name=c11-identity-errors a derivation cycle is accepted without error (run %d):\n%s", run, text)
				break
			}
		}
	}
	fmt.Printf("GOVC-BOUNDED name=c11-identity-closure bound=%d_random_derivation_graphs_(<=8_identities,_<=3_modules_or_submodules,_colliding_prefixes,_seed_%d)_x_4_runs_each,_and_half_as_many_derivation_rings_x_6_runs evaluations=%d distinct=%d\n", graphs, seed, evals, distinct)
}
