package yang

// Fixed case for C11 / C05 (an OPEN finding, see KNOWN_FINDINGS.txt): two
// revisions of one module loaded side by side each define the identities of
// their own text, but the identity dictionary is keyed by module NAME and
// identity name, so the two definitions of an identity collide: one revision's
// identity keeps an empty list and the other collects the derivations of both,
// and which is which follows the iteration order of a map.

import (
	"fmt"
	"strings"
	"testing"
)

func TestGovcBoundedC11IdentitiesOfTwoRevisions(t *testing.T) {
	srcs := []string{
		`module lib { namespace "urn:lib"; prefix l; revision 2020-01-01; identity root; identity a { base root; } }`,
		`module lib { namespace "urn:lib"; prefix l; revision 2021-01-01; identity root; identity a { base root; } identity b { base root; } }`,
		`module u { namespace "urn:u"; prefix u; import lib { prefix l; revision-date 2020-01-01; } leaf r { type identityref { base l:root; } } }`,
	}
	names := func(ids []*Identity) string {
		var s []string
		for _, v := range ids {
			s = append(s, v.Name)
		}
		return strings.Join(s, ",")
	}
	bad := ""
	for run := 0; run < 6 && bad == ""; run++ {
		ms := NewModules()
		for i, s := range srcs {
			if err := ms.Parse(s, fmt.Sprintf("r%d.yang", i)); err != nil {
				bad = err.Error()
			}
		}
		if errs := ms.Process(); len(errs) > 0 {
			bad = fmt.Sprint(errs)
			break
		}
		var got []string
		for _, k := range []string{"lib@2020-01-01", "lib@2021-01-01"} {
			for _, id := range ms.Modules[k].Identity {
				if id.Name == "root" {
					got = append(got, k+":root=["+names(id.Values)+"]")
				}
			}
		}
		leaf := ToEntry(ms.Modules["u"]).Dir["r"]
		if leaf != nil && leaf.Type != nil && leaf.Type.IdentityBase != nil {
			got = append(got, "u:r=["+names(leaf.Type.IdentityBase.Values)+"]")
		}
		if g := strings.Join(got, " "); g != "lib@2020-01-01:root=[a] lib@2021-01-01:root=[a,b] u:r=[a]" {
			bad = g
		}
	}
	if bad != "" {
		fmt.Printf("GOVC-FAIL name=c11-identities-of-two-revisions two revisions of module lib, each with identity root: %s (want lib@2020-01-01:root=[a] lib@2021-01-01:root=[a,b] u:r=[a])\n", bad)
	}
	fmt.Printf("GOVC-BOUNDED name=c11-identities-of-two-revisions bound=1_fixed_set_x_6_runs evaluations=6 distinct=1\n")
}
