package yang

// Bounded stand-in for the part of C04 that the contracts do not reach: that
// the reflection-driven builder (ToEntry) and the whole pipeline establish the
// tree shape in the first place. A corpus of small module sets -- including
// ones whose only problems arise late, during augment merging -- is processed;
// whenever Process reports no error, every tree is walked (rpc/action input and
// output included) and checked against the statement of the property.

import (
	"fmt"
	"sort"
	"testing"
)

type govcSet struct {
	name    string
	sources []string
	wantErr bool // Process must report an error
}

func govcCorpus() []govcSet {
	base := `module m { namespace "urn:m"; prefix m;
  grouping g { leaf gl { type string; } container gc { leaf deep { type int8; } list gll { key k; leaf k { type string; } } } action act { input { leaf p { type string; } } } }
  container c { uses g; leaf own { type uint8; } }
  container d { uses g; }
  list l { key id; leaf id { type string; } leaf-list ll { type string; } choice ch { leaf a { type string; } case b { leaf b1 { type string; } } container cc { leaf x { type string; } } } }
  rpc r { input { leaf i { type string; } choice rc { leaf ra { type string; } } } output { leaf o { type string; } } }
  rpc bare;
  notification n { leaf nl { type string; } }
}`
	return []govcSet{
		{"base", []string{base}, false},
		{"augment-other-module", []string{base, `module a { namespace "urn:a"; prefix a; import m { prefix m; }
  augment "/m:c" { leaf ax { type string; } container ac { leaf ay { type string; } } }
  augment "/m:c/a:ac" { leaf az { type string; } }
  augment "/m:l/m:ch" { leaf late { type string; } }
  augment "/m:r/m:input" { leaf extra { type string; } }
  augment "/m:bare/m:input" { leaf lazy { type string; } }
}`}, false},
		{"duplicate-augment-two-modules", []string{base,
			`module a { namespace "urn:a"; prefix a; import m { prefix m; } augment "/m:c" { leaf dupl { type string; } } }`,
			`module b { namespace "urn:b"; prefix b; import m { prefix m; } augment "/m:c" { leaf dupl { type string; } } }`}, true},
		{"augment-existing-child", []string{base,
			`module a { namespace "urn:a"; prefix a; import m { prefix m; } augment "/m:c" { leaf own { type string; } } }`}, true},
		{"bad-type-in-rpc-input", []string{`module m { namespace "urn:m"; prefix m; rpc r { input { leaf x { type bogus; } } } }`}, true},
		{"bad-type-in-action-output", []string{`module m { namespace "urn:m"; prefix m; container c { action a { output { leaf x { type bogus; } } } } }`}, true},
		{"augment-missing-target", []string{base,
			`module a { namespace "urn:a"; prefix a; import m { prefix m; } augment "/m:nope" { leaf x { type string; } } }`}, true},
		{"submodule", []string{`module m { namespace "urn:m"; prefix m; include s; container top { uses sg; } }`,
			`submodule s { belongs-to m { prefix m; } grouping sg { leaf sl { type string; } } container sc { leaf x { type string; } } }`}, false},
		{"uses-across-modules-in-augment", []string{base,
			`module t { namespace "urn:t"; prefix t; grouping tg { leaf tl { type string; } container tc { leaf tcl { type string; } } } }`,
			`module a { namespace "urn:a"; prefix a; import m { prefix m; } import t { prefix t; } augment "/m:d" { uses t:tg; } }`}, false},
		{"augment-written-before-its-target-exists", []string{base, `module a { namespace "urn:a"; prefix a; import m { prefix m; }
  augment "/m:c/a:newc/a:nch" { leaf short { type string; } container sc { leaf y { type string; } } }
  augment "/m:c" { container newc { choice nch { leaf first { type string; } } } }
  augment "/m:r/m:output/a:oc/a:och" { leaf late { type string; } }
  augment "/m:r/m:output" { container oc { choice och { case c1 { leaf l1 { type string; } } } } }
}`}, false},
		{"single-module-augment-written-before-its-target-exists", []string{`module m { namespace "urn:m"; prefix m;
  container top;
  rpc query { output { leaf id { type string; } } }
  augment "/m:top/m:transport/m:kind" { leaf udp { type empty; } }
  augment "/m:top" { container transport { choice kind { case tcp { leaf tcp { type empty; } } } } }
  augment "/m:query/m:output/m:result/m:ok" { choice payload { leaf text { type string; } leaf bin { type binary; } } }
  augment "/m:query/m:output" { choice result { case ok { leaf code { type uint8; } } case fail { leaf reason { type string; } } } }
}`}, false},
		{"every-module-needs-two-rounds", []string{
			`module x { namespace "urn:x"; prefix x; import y { prefix y; }
  container root;
  augment "/x:root/x:x1/y:y1" { container x2 { choice sel { case dflt { leaf dflt { type empty; } } } } }
  augment "/x:root" { container x1; }
}`,
			`module y { namespace "urn:y"; prefix y; import x { prefix x; }
  augment "/x:root/x:x1/y:y1/x:x2/x:sel" { container from-y; }
  augment "/x:root/x:x1" { container y1; }
}`}, false},
		{"augments-interleaved-across-modules", []string{base,
			`module a { namespace "urn:a"; prefix a; import m { prefix m; } import b { prefix b; }
  augment "/m:c" { container ac { leaf al { type string; } } }
  augment "/m:c/a:ac/b:bc" { choice ach { leaf s1 { type string; } } }
  augment "/m:c/a:ac/b:bc/a:ach" { leaf s2 { type string; } }
}`,
			`module b { namespace "urn:b"; prefix b; import m { prefix m; } import a { prefix a; }
  augment "/m:c/a:ac" { container bc { leaf bl { type string; } } }
  augment "/m:c/a:ac/b:bc/a:ach" { leaf s3 { type string; } }
}`}, false},
		{"duplicate-augment-into-lazily-created-input", []string{base,
			`module a { namespace "urn:a"; prefix a; import m { prefix m; } augment "/m:bare/m:input" { leaf lazy { type string; } } }`,
			`module b { namespace "urn:b"; prefix b; import m { prefix m; } augment "/m:bare/m:input" { leaf lazy { type string; } } }`}, true},
		{"bad-type-augmented-into-lazily-created-output", []string{base,
			`module a { namespace "urn:a"; prefix a; import m { prefix m; } augment "/m:bare/m:output" { leaf x { type bogus; } } }`}, true},
		{"duplicate-augment-into-second-expansion-of-a-grouping", []string{base,
			`module a { namespace "urn:a"; prefix a; import m { prefix m; } augment "/m:d/m:gc" { leaf deep { type string; } } }`}, true},
		{"duplicate-augment-into-first-expansion-of-a-grouping", []string{base,
			`module a { namespace "urn:a"; prefix a; import m { prefix m; } augment "/m:c/m:gc" { leaf deep { type string; } } }`}, true},
		{"bad-type-augmented-into-grouping-action-input", []string{base,
			`module a { namespace "urn:a"; prefix a; import m { prefix m; } augment "/m:d/m:act/m:input" { leaf q { type bogus; } } }`}, true},
		{"shorthand-list-and-leaf-list-under-a-choice", []string{base,
			`module sh { namespace "urn:sh"; prefix sh; import m { prefix m; }
  grouping shg { choice gch { list gl { key k; leaf k { type string; } } leaf-list gll { type string; } } }
  container c { choice ch { list l { key k; leaf k { type string; } min-elements 1; } leaf-list ll { type string; max-elements 3; } container plain; } uses shg; }
  container c2 { uses shg; }
  rpc r { input { choice ich { list il { key k; leaf k { type string; } } } } }
  augment "/m:l/m:ch" { list al { key k; leaf k { type string; } } leaf-list all { type string; } }
}`}, false},
		{"two-revisions-of-one-module", []string{base,
			`module rv { namespace "urn:rv"; prefix rv; import m { prefix m; } revision 2020-01-01;
  container top { choice ch { leaf a { type string; } container b; } }
  rpc q { input { choice ic { leaf x { type string; } } } }
  augment "/rv:top" { leaf added { type string; } }
}`,
			`module rv { namespace "urn:rv"; prefix rv; import m { prefix m; } revision 2021-01-01;
  container top { choice ch { leaf a { type string; } container b; leaf c { type string; } } }
  rpc q { input { choice ic { leaf x { type string; } leaf y { type string; } } } }
  augment "/rv:top" { leaf added { type string; } leaf more { type string; } }
}`}, false},
		{"two-revisions-the-older-one-bad", []string{
			`module rv { namespace "urn:rv"; prefix rv; revision 2020-01-01; container top { leaf x { type bogus; } } }`,
			`module rv { namespace "urn:rv"; prefix rv; revision 2021-01-01; container top { leaf x { type string; } } }`}, true},
		{"two-revisions-the-newer-one-bad", []string{
			`module rv { namespace "urn:rv"; prefix rv; revision 2020-01-01; container top { leaf x { type string; } } }`,
			`module rv { namespace "urn:rv"; prefix rv; revision 2021-01-01; container top { list l { key k; leaf k { type string; } max-elements bogus; } } }`}, true},
		{"augment-whose-body-is-only-a-missing-grouping", []string{base,
			`module a { namespace "urn:a"; prefix a; import m { prefix m; } augment "/m:c" { uses no-such-grouping; } }`}, true},
		{"augment-whose-body-is-only-a-missing-grouping-same-module", []string{
			`module m { namespace "urn:m"; prefix m; container c; rpc r; augment "/m:c" { when "1"; uses no-such-grouping; } }`}, true},
		{"augment-only-a-missing-grouping-into-rpc-input-from-submodule", []string{
			`module m { namespace "urn:m"; prefix m; include s; container c { choice ch { leaf a { type string; } } } rpc r; }`,
			`submodule s { belongs-to m { prefix m; } augment "/m:r/m:input" { uses nope; } augment "/m:c/m:ch" { uses nope2; } }`}, true},
		{"valid-empty-augment", []string{base,
			`module a { namespace "urn:a"; prefix a; import m { prefix m; } grouping only-types { typedef t { type string; } } augment "/m:c" { description "nothing"; uses only-types; } }`}, false},
		{"augment-into-the-input-of-an-action-that-declares-none", []string{
			`module m { namespace "urn:m"; prefix m; container c { action a; list l { key k; leaf k { type string; } action b { description "bare"; } } } grouping g { action ga; } container u { uses g; } }`,
			`module x { namespace "urn:x"; prefix x; import m { prefix m; } augment "/m:c/m:a/m:input" { leaf p { type string; } } augment "/m:c/m:l/m:b/m:output" { choice r { leaf ok { type empty; } } } augment "/m:u/m:ga/m:input" { leaf q { type string; } } }`}, false},
		{"error-in-a-grouping-defined-inside-a-grouping-that-is-used-through-another", []string{
			`module m { namespace "urn:m"; prefix m; grouping g2 { uses g1; } grouping g1 { grouping inner { leaf x { type nosuchtype; } } leaf y { type string; } } container c { uses g2; } }`}, true},
		{"error-in-an-unused-grouping-inside-a-container-inside-a-grouping", []string{
			`module m { namespace "urn:m"; prefix m; grouping g2 { container k { uses g1; } } grouping g1 { container c { grouping inner { uses nosuchgrouping; } leaf y { type string; } } } container top { uses g2; } }`}, true},
		{"error-in-a-grouping-defined-in-a-submodule-grouping", []string{
			`module m { namespace "urn:m"; prefix m; include s; container top { uses sg2; } }`,
			`submodule s { belongs-to m { prefix m; } grouping sg2 { uses sg1; } grouping sg1 { grouping inner { leaf x { type nosuchtype; } } leaf y { type string; } } }`}, true},
		{"augment-through-an-implied-case-adds-a-choice-member", []string{
			`module m { namespace "urn:m"; prefix m; container top { choice ch { container a { choice ch2 { leaf x { type string; } } } } } }`,
			`module u { namespace "urn:u"; prefix u; import m { prefix m; } augment "/m:top/m:ch/m:a/m:a/m:ch2" { leaf late { type string; } container latec { leaf z { type string; } } } augment "/m:top/m:ch/m:a/m:a" { choice inner { leaf p { type string; } } } }`}, false},
		{"deviation", []string{base,
			`module dv { namespace "urn:dv"; prefix dv; import m { prefix m; } deviation "/m:c/m:gc/m:gll" { deviate add { min-elements 5; } } deviation "/m:d/m:gl" { deviate not-supported; } }`}, false},
	}
}

type govcWalk struct {
	seen  map[*Entry]string
	fails []string
}

func (w *govcWalk) failf(format string, a ...interface{}) {
	if len(w.fails) < 6 {
		w.fails = append(w.fails, fmt.Sprintf(format, a...))
	}
}

func (w *govcWalk) visit(e *Entry, parent *Entry, key string, path string) int {
	if e == nil {
		w.failf("%s: nil entry under key %q", path, key)
		return 0
	}
	if prev, ok := w.seen[e]; ok {
		w.failf("%s: node object also reachable as %s", path, prev)
		return 0
	}
	w.seen[e] = path
	n := 1
	if e.Parent != parent {
		w.failf("%s: Parent does not point back to its parent", path)
	}
	if parent != nil && key != "" && e.Name != key {
		w.failf("%s: filed under %q but named %q", path, key, e.Name)
	}
	if len(e.Errors) > 0 {
		w.failf("%s: carries %d recorded error(s) although Process reported none: %v", path, len(e.Errors), e.Errors[0])
	}
	if len(e.Augments) > 0 && parent == nil {
		w.failf("%s: %d augment(s) left unapplied", path, len(e.Augments))
	}
	isLeafish := e.Kind == LeafEntry
	if isLeafish {
		if e.Dir != nil {
			w.failf("%s: a leaf/leaf-list with a child map", path)
		}
		if e.Type == nil {
			w.failf("%s: a leaf/leaf-list without a resolved type", path)
		}
	} else if e.Dir == nil && e.Kind != AnyDataEntry && e.Kind != AnyXMLEntry && e.RPC == nil {
		w.failf("%s: kind %v without a child map", path, e.Kind)
	}
	// (IsList / IsLeafList are themselves defined through ListAttr: go by the statement the node was made from)
	// (a leaf-list entry is made from a synthesized *Leaf: the keyword of the source statement tells)
	kw := ""
	if e.Node != nil && e.Node.Statement() != nil {
		kw = e.Node.Statement().Keyword
	}
	fromList, fromLeafList := kw == "list" && e.Kind == DirectoryEntry, kw == "leaf-list" && e.Kind == LeafEntry
	if e.ListAttr != nil && !fromList && !fromLeafList {
		w.failf("%s: list attributes on a node (made from a %q statement, kind %v) that is neither list nor leaf-list", path, kw, e.Kind)
	}
	if (e.IsList() || e.IsLeafList()) && !fromList && !fromLeafList {
		w.failf("%s: made from a %q statement, kind %v, reports IsList=%v IsLeafList=%v", path, kw, e.Kind, e.IsList(), e.IsLeafList())
	}
	if e.Kind == CaseEntry || e.Kind == ChoiceEntry {
		if e.Type != nil || e.RPC != nil || e.Key != "" {
			w.failf("%s: a choice/case with a type, rpc part or key", path)
		}
	}
	if (fromList || fromLeafList) && e.ListAttr == nil {
		w.failf("%s: a %s without list attributes", path, kw)
	}
	var keys []string
	for k := range e.Dir {
		keys = append(keys, k)
	}
	sort.Strings(keys)
	for _, k := range keys {
		c := e.Dir[k]
		if e.Kind == ChoiceEntry && c != nil && c.Kind != CaseEntry {
			w.failf("%s/%s: child of a choice that is not a case", path, k)
		}
		n += w.visit(c, e, k, path+"/"+k)
	}
	if e.RPC != nil {
		if e.RPC.Input != nil {
			n += w.visit(e.RPC.Input, e, "input", path+"/input")
		}
		if e.RPC.Output != nil {
			n += w.visit(e.RPC.Output, e, "output", path+"/output")
		}
	}
	return n
}

func TestGovcBoundedC04Trees(t *testing.T) {
	evals, nodes := 0, 0
	for _, set := range govcCorpus() {
		// every load order of the sources (at most 3! = 6)
		for _, perm := range govcPerms3(len(set.sources)) {
			evals++
			ms := NewModules()
			loadOK := true
			for _, ix := range perm {
				if err := ms.Parse(set.sources[ix], fmt.Sprintf("%s-%d.yang", set.name, ix)); err != nil {
					fmt.Printf("GOVC-FAIL name=c04-trees set %s does not parse: %v\n", set.name, err)
					loadOK = false
				}
			}
			if !loadOK {
				continue
			}
			errs := ms.Process()
			if set.wantErr {
				if len(errs) == 0 {
					fmt.Printf("GOVC-FAIL name=c04-late-errors set %s (load order %v): Process reports no error\n", set.name, perm)
				}
				continue
			}
			if len(errs) > 0 {
				fmt.Printf("GOVC-FAIL name=c04-trees set %s (load order %v): unexpected errors %v\n", set.name, perm, errs)
				continue
			}
			w := &govcWalk{seen: map[*Entry]string{}}
			// every module once -- by object, not by name: two revisions of one
			// module are two modules with a tree each
			var names []string
			for n := range ms.Modules {
				names = append(names, n)
			}
			sort.Strings(names)
			done := map[*Module]bool{}
			for _, n := range names {
				if m := ms.Modules[n]; !done[m] {
					done[m] = true
					nodes += w.visit(ToEntry(m), nil, "", "/"+n)
				}
			}
			for _, f := range w.fails {
				fmt.Printf("GOVC-FAIL name=c04-trees set %s (load order %v): %s\n", set.name, perm, f)
			}
		}
	}
	fmt.Printf("GOVC-BOUNDED name=c04-tree-shape-after-clean-process bound=%d_module_sets_x_all_load_orders,_every_entry_walked evaluations=%d distinct=%d\n", len(govcCorpus()), evals, nodes)
}

func govcPerms3(n int) [][]int {
	if n == 0 {
		return [][]int{{}}
	}
	var out [][]int
	for _, p := range govcPerms3(n - 1) {
		for i := 0; i <= len(p); i++ {
			q := append(append(append([]int{}, p[:i]...), n-1), p[i:]...)
			out = append(out, q)
		}
	}
	return out
}
