package yang

// Bounded stand-in for the part of C12 that no contract reaches: that the
// whole pipeline (ToEntry's reflection loop, uses expansion, augments) leaves
// Config and the namespace stamps such that ReadOnly() and Namespace() of
// every node are what the statement says -- read-only exactly when the nearest
// explicit config statement on the way up says false or the node lies in an
// rpc/action output; the namespace of the module whose text placed the node.
// Random schemas of the shared model (groupings used across modules, actions
// inside groupings below config false and config true, config statements on
// containers, leaves and inside outputs, a few augments) are compared node by
// node with the model's own expansion.

import (
	"fmt"
	"math/rand"
	"os"
	"strconv"
	"strings"
	"testing"
)

func TestGovcBoundedC12Inheritance(t *testing.T) {
	seed := int64(1)
	if s := os.Getenv("VERIF_SEED"); s != "" {
		if v, err := strconv.ParseInt(s, 10, 64); err == nil {
			seed = v
		}
	}
	schemas := 80
	if os.Getenv("VERIF_TIER") == "thorough" {
		schemas = 1500
	}
	rng := rand.New(rand.NewSource(seed))
	evals, nodes, invalid := 0, 0, 0
	for n := 0; n < schemas; n++ {
		g := &gxGen{rng: rng, nGroup: 2 + rng.Intn(5)}
		g.mkModules()
		for _, m := range g.mods {
			g.topNodes(m)
		}
		g.mkGroupings()
		g.mkInstances()
		// a few augments into containers of other modules: the grafted nodes belong to the augmenting module
		for a := 0; a < rng.Intn(3); a++ {
			ex := g.model()
			if len(ex.errs) > 0 {
				break
			}
			var targets []*gxNode
			for _, r := range ex.rootList() {
				gxCollect(r, func(x *gxNode) bool { return x.parent != nil && (x.kind == "container" || x.kind == "input" || x.kind == "output") }, &targets)
			}
			if len(targets) == 0 {
				break
			}
			am := g.mods[rng.Intn(len(g.mods))]
			am.stmt.add(gs("augment", g.nsPath(am, targets[rng.Intn(len(targets))]), g.dataNodes(am, fmt.Sprintf("i%da", a), 1)...))
		}
		ex := &gxExpander{mods: g.mods}
		ex.expandAll()
		missing := ex.applyAugments()
		for _, r := range ex.rootList() {
			r.fixChoices()
		}
		var srcs []string
		for _, m := range g.mods {
			srcs = append(srcs, m.text())
		}
		all := strings.Join(srcs, "")
		evals++
		ms := NewModules()
		ok := true
		for _, ix := range rng.Perm(len(srcs)) {
			if err := ms.Parse(srcs[ix], fmt.Sprintf("f%d.yang", ix)); err != nil {
				fmt.Printf("GOVC-FAIL name=c12-inheritance schema %d does not parse: %v\n%s\n", n, err, srcs[ix])
				ok = false
			}
		}
		if !ok {
			continue
		}
		errs := ms.Process()
		if len(ex.errs) > 0 || len(missing) > 0 {
			invalid++
			continue // (that invalid schemas are refused is checked by the stand-ins of C06 and C07)
		}
		if len(errs) > 0 {
			fmt.Printf("GOVC-FAIL name=c12-inheritance schema %d is valid for the model, Process reports %v\n%s\n", n, errs[0], all)
			continue
		}
		fails, cnt := gxCompareAll(ms, ex)
		nodes += cnt
		for _, f := range fails {
			fmt.Printf("GOVC-FAIL name=c12-inheritance schema %d: %s\n%s\n", n, f, all)
		}
	}
	// fixed cases: the config statement of a grouping's node inside an output; an action below config false
	fixed := `module f { namespace "urn:f"; prefix f;
  grouping g { leaf x { type string; config true; } container k { config true; leaf y { type string; } action a { input { leaf i { type string; } } output { leaf o { type string; } } } } }
  rpc r { input { uses g; } output { uses g; leaf plain { type string; } } }
  container state { config false; uses g; container rw { config true; leaf z { type string; } } }
  container cfg { uses g; }
}`
	ms := NewModules()
	if err := ms.Parse(fixed, "f.yang"); err != nil {
		fmt.Printf("GOVC-FAIL name=c12-inheritance fixed case does not parse: %v\n", err)
	} else if errs := ms.Process(); len(errs) > 0 {
		fmt.Printf("GOVC-FAIL name=c12-inheritance fixed case: %v\n", errs)
	} else {
		root := ToEntry(ms.Modules["f"])
		for path, want := range map[string]bool{
			"r/output/x": true, "r/output/k": true, "r/output/k/y": true, "r/output/plain": true, "r/output/k/a/input/i": true,
			"r/input/x": false, "r/input/k/y": false, "r/input/k/a/output/o": true,
			"state/x": false, "state/k/y": false, "state/k/a/input/i": false, "state/k/a/output/o": true, "state/rw/z": false, "state": true,
			"cfg/x": false, "cfg/k/a/input/i": false, "cfg/k/a/output/o": true, "cfg": false,
		} {
			evals++
			e := root.Find(path)
			if e == nil {
				fmt.Printf("GOVC-FAIL name=c12-inheritance fixed case: no node %s\n", path)
			} else if got := e.ReadOnly(); got != want {
				fmt.Printf("GOVC-FAIL name=c12-inheritance fixed case: %s ReadOnly() = %v, expected %v\n", path, got, want)
			}
		}
	}
	// two revisions of one module side by side: every node of either tree is attributed to the module
	{
		evals++
		ms := NewModules()
		for i, src := range []string{
			`module fv { namespace "urn:fv"; prefix fv; revision 2020-01-01; container c { leaf a { type string; } } }`,
			`module fv { namespace "urn:fv"; prefix fv; revision 2021-01-01; container c { leaf a { type string; } leaf b { type string; } } }`,
			`module other { namespace "urn:other"; prefix o; import fv { prefix fv; } augment "/fv:c" { leaf from-other { type string; } } }`} {
			if err := ms.Parse(src, fmt.Sprintf("rev%d.yang", i)); err != nil {
				fmt.Printf("GOVC-FAIL name=c12-inheritance fixed case does not parse: %v\n", err)
			}
		}
		if errs := ms.Process(); len(errs) > 0 {
			fmt.Printf("GOVC-FAIL name=c12-inheritance two revisions of one module: %v\n", errs)
		}
		for _, k := range []string{"fv@2020-01-01", "fv@2021-01-01"} {
			c := ToEntry(ms.Modules[k]).Dir["c"]
			for name, want := range map[string]string{"a": "fv", "from-other": "other"} {
				n := c.Dir[name]
				if n == nil {
					continue // (the augment lands in the latest revision only)
				}
				if got, err := n.InstantiatingModule(); err != nil || got != want {
					fmt.Printf("GOVC-FAIL name=c12-inheritance %s /c/%s: InstantiatingModule() = %q, %v; want %q\n", k, name, got, err, want)
				}
			}
		}
	}
	fmt.Printf("GOVC-BOUNDED name=c12-readonly-and-namespace-vs-model bound=%d_random_schemas_(groupings_across_modules,_actions,_config_statements_at_every_level,_augments;_seed_%d;_%d_invalid)_+_18_fixed_paths evaluations=%d distinct=%d\n", schemas, seed, invalid, evals, nodes)
}
