package yang

// Bounded stand-in for the clauses of C10 that need the restriction text: the
// value set of a parsed restriction equals the set as written (brute force
// over a small universe), and the eight built-in ranges are the RFC bounds
// (closed terms: a ground evaluation of the real initialisers).

import (
	"fmt"
	"math/big"
	"math/rand"
	"os"
	"strconv"
	"strings"
	"testing"
)

func TestGovcBoundedC10Builtins(t *testing.T) {
	want := map[string][2]string{
		"int8": {"-128", "127"}, "int16": {"-32768", "32767"}, "int32": {"-2147483648", "2147483647"}, "int64": {"-9223372036854775808", "9223372036854775807"},
		"uint8": {"0", "255"}, "uint16": {"0", "65535"}, "uint32": {"0", "4294967295"}, "uint64": {"0", "18446744073709551615"},
	}
	got := map[string]YangRange{"int8": Int8Range, "int16": Int16Range, "int32": Int32Range, "int64": Int64Range,
		"uint8": Uint8Range, "uint16": Uint16Range, "uint32": Uint32Range, "uint64": Uint64Range}
	n := 0
	for name, w := range want {
		n++
		r := got[name]
		if len(r) != 1 || r[0].Min.String() != w[0] || r[0].Max.String() != w[1] || r[0].Min.FractionDigits != 0 || r[0].Max.FractionDigits != 0 {
			fmt.Printf("GOVC-FAIL name=c10-builtin-ranges %s range is %v, RFC 7950 says %s..%s\n", name, r, w[0], w[1])
		}
		if bt := baseTypes[name]; bt == nil || !bt.Range.Equal(r) {
			fmt.Printf("GOVC-FAIL name=c10-builtin-ranges base type %s does not carry its range\n", name)
		}
	}
	fmt.Printf("GOVC-BOUNDED name=c10-builtin-ranges bound=the_8_integer_base_types_(ground_evaluation) evaluations=%d distinct=%d\n", n, n)
}

func govcMant(n Number) *big.Int {
	m := new(big.Int).SetUint64(n.Value)
	if n.Negative {
		m.Neg(m)
	}
	return m
}

func govcIn(r YangRange, x int64) bool {
	bx := big.NewInt(x)
	for _, p := range r {
		if govcMant(p.Min).Cmp(bx) <= 0 && bx.Cmp(govcMant(p.Max)) <= 0 {
			return true
		}
	}
	return false
}

func TestGovcBoundedC10Denotation(t *testing.T) {
	seed := int64(1)
	if s := os.Getenv("VERIF_SEED"); s != "" {
		if v, err := strconv.ParseInt(s, 10, 64); err == nil {
			seed = v
		}
	}
	rounds := 4000
	if os.Getenv("VERIF_TIER") == "thorough" {
		rounds = 60000
	}
	rng := rand.New(rand.NewSource(seed))
	const lo, hi = -12, 24
	parents := []string{"", "-10..20", "0..5|8..12", "-5..-1|1..5|10..20", "3", "-12..24"}
	evals := 0
	seen := map[string]bool{}
	for i := 0; i < rounds; i++ {
		ps := parents[rng.Intn(len(parents))]
		var parent YangRange
		if ps != "" {
			var err error
			parent, err = ParseRangesInt(ps)
			if err != nil {
				fmt.Printf("GOVC-FAIL name=c10-denotation parent %q does not parse: %v\n", ps, err)
				continue
			}
		}
		// a restriction of 1..4 parts over small integers and the keywords
		nparts := 1 + rng.Intn(4)
		var parts []string
		type iv struct{ a, b int64 }
		var written []iv
		valid := true
		pmin, pmax := int64(0), int64(0)
		if len(parent) > 0 {
			pmin, _ = parent[0].Min.Int()
			pmax, _ = parent[len(parent)-1].Max.Int()
		}
		num := func() (string, int64, bool) {
			switch k := rng.Intn(12); {
			case k == 0:
				if len(parent) == 0 {
					return "min", 0, false
				}
				return "min", pmin, true
			case k == 1:
				if len(parent) == 0 {
					return "max", 0, false
				}
				return "max", pmax, true
			default:
				v := int64(lo + rng.Intn(hi-lo+1))
				return strconv.FormatInt(v, 10), v, true
			}
		}
		for p := 0; p < nparts; p++ {
			as, a, aok := num()
			if rng.Intn(3) == 0 {
				parts = append(parts, as)
				written = append(written, iv{a, a})
				valid = valid && aok
				continue
			}
			bs, b, bok := num()
			sep := ".."
			if rng.Intn(4) == 0 {
				sep = " .. "
			}
			parts = append(parts, as+sep+bs)
			written = append(written, iv{a, b})
			valid = valid && aok && bok && a <= b
		}
		text := strings.Join(parts, "|")
		if rng.Intn(5) == 0 {
			text = strings.Join(parts, " | ")
		}
		key := ps + "#" + text
		if !seen[key] {
			seen[key] = true
		}
		evals++
		got, err := parent.parseChildRanges(text, false, 0)
		inWritten := func(x int64) bool {
			for _, w := range written {
				if w.a <= x && x <= w.b {
					return true
				}
			}
			return false
		}
		subset := true
		if len(parent) > 0 {
			for x := int64(lo - 2); x <= hi+2; x++ {
				if inWritten(x) && !govcIn(parent, x) {
					subset = false
				}
			}
		}
		if err != nil {
			if valid && subset {
				fmt.Printf("GOVC-FAIL name=c10-denotation parent %q restriction %q rejected (%v) although it is well-formed and within the parent\n", ps, text, err)
			}
			continue
		}
		if !valid {
			fmt.Printf("GOVC-FAIL name=c10-denotation parent %q restriction %q accepted as %v although a part is out of order or uses min/max without a parent\n", ps, text, got)
			continue
		}
		if !subset {
			fmt.Printf("GOVC-FAIL name=c10-denotation parent %q restriction %q accepted as %v although it admits a value its parent does not\n", ps, text, got)
			continue
		}
		for x := int64(lo - 2); x <= hi+2; x++ {
			if govcIn(got, x) != inWritten(x) {
				fmt.Printf("GOVC-FAIL name=c10-denotation parent %q restriction %q parsed as %v: value %d is in one set and not the other\n", ps, text, got, x)
				break
			}
		}
		// presented sorted, disjoint and coalesced
		for j := 0; j+1 < len(got); j++ {
			a := new(big.Int).Add(govcMant(got[j].Max), big.NewInt(1))
			if a.Cmp(govcMant(got[j+1].Min)) >= 0 {
				fmt.Printf("GOVC-FAIL name=c10-denotation parent %q restriction %q parsed as %v: parts %d and %d are not sorted, disjoint and non-adjacent\n", ps, text, got, j, j+1)
			}
		}
	}
	// fixed texts: YANG integers are decimal (a leading zero does not make a number octal, Go's
	// prefix notations are no numbers), decimal bounds need digits on both sides of the point
	for _, fx := range []struct {
		text    string
		decimal bool
		want    string // "" = must be rejected
	}{
		{"010..020", false, "10..20"}, {"-007", false, "-7"}, {"0x10..0x20", false, ""}, {"0b11", false, ""}, {"0o17", false, ""}, {"1_000", false, ""}, {"1..0x10", false, ""},
		{"1.5..2.5", true, "1.5..2.5"}, {"1..2", true, "1.0..2.0"}, {". .. 1.5", true, ""}, {"1. .. 2.0", true, ""}, {".5..1.0", true, ""}, {"-.5..1.0", true, ""}, {"0.5..1.", true, ""},
	} {
		evals++
		var got YangRange
		var err error
		if fx.decimal {
			got, err = ParseRangesDecimal(fx.text, 1)
		} else {
			got, err = ParseRangesInt(fx.text)
		}
		switch {
		case fx.want == "" && err == nil:
			fmt.Printf("GOVC-FAIL name=c10-denotation restriction %q is not written in YANG's decimal notation and is accepted as %v\n", fx.text, got)
		case fx.want != "" && (err != nil || got.String() != fx.want):
			fmt.Printf("GOVC-FAIL name=c10-denotation restriction %q parsed as %v (%v), want %s\n", fx.text, got, err, fx.want)
		}
	}
	// through the schema: a restriction narrows what the whole chain has left, also when the typedef
	// directly derived from writes no restriction of its own
	for _, sc := range []struct {
		body    string
		wantErr bool
		leaf    string
		want    string
	}{
		{`typedef a { type string { length "1..10"; } } typedef b { type a; } leaf l { type b { length "5..20"; } }`, true, "", ""},
		{`typedef a { type string { length "2..10|20..30"; } } typedef b { type a; } typedef c { type b; } leaf l { type c { length "min..5"; } }`, false, "l", "2..5"},
		{`typedef a { type int32 { range "1..100"; } } typedef b { type a; } leaf l { type b { range "50..200"; } }`, true, "", ""},
		{`typedef a { type int32 { range "1..100"; } } typedef b { type a; } typedef c { type b { range "10..max"; } } leaf l { type c { range "min..20"; } }`, false, "l", "10..20"},
		{`typedef a { type binary { length "4..8"; } } typedef b { type a; } leaf l { type b { length "0..4"; } }`, true, "", ""},
	} {
		evals++
		ms := NewModules()
		if err := ms.Parse("module m { namespace \"urn:m\"; prefix m; "+sc.body+" }", "chain.yang"); err != nil {
			fmt.Printf("GOVC-FAIL name=c10-denotation fixed schema does not parse: %v\n", err)
			continue
		}
		errs := ms.Process()
		switch {
		case sc.wantErr && len(errs) == 0:
			fmt.Printf("GOVC-FAIL name=c10-denotation a restriction that admits what its chain does not is accepted: %s\n", sc.body)
		case !sc.wantErr && len(errs) > 0:
			fmt.Printf("GOVC-FAIL name=c10-denotation %s: %v\n", sc.body, errs)
		case !sc.wantErr:
			l := ToEntry(ms.Modules["m"]).Dir[sc.leaf]
			got := ""
			if l != nil && l.Type != nil {
				got = l.Type.Length.String()
				if len(l.Type.Length) == 0 {
					got = l.Type.Range.String()
				}
			}
			if got != sc.want {
				fmt.Printf("GOVC-FAIL name=c10-denotation %s: the leaf's set is %s, want %s\n", sc.body, got, sc.want)
			}
		}
	}
	fmt.Printf("GOVC-BOUNDED name=c10-denotation-brute-force bound=%d_random_restrictions_(seed_%d)_of_<=4_parts_over_[-12,24]_and_min/max_x_6_parents evaluations=%d distinct=%d\n", rounds, seed, evals, len(seen))
}
