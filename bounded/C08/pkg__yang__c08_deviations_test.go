package yang

// Bounded stand-in for C08: random base schemas (containers, lists, leaves,
// leaf-lists, choices, rpcs, groupings, augments) and random sets of deviations
// written in one or two deviating modules: not-supported, add, replace and
// delete of config, default, mandatory, min/max-elements, units and type,
// several deviate statements per deviation (their written order matters), one
// deviation per target. The expected tree comes from the independent expander
// of the shared model file with RFC 7950 7.20.3 applied on top; every node that
// no deviation names must come out exactly as without the deviating modules
// (the same comparison covers it: the model of untouched nodes does not depend
// on the deviations). Deviations that cannot be applied must be errors. Both
// settings of the ignore-not-supported option are run.

import (
	"fmt"
	"math/rand"
	"os"
	"strconv"
	"strings"
	"testing"
)

func TestGovcBoundedC08Deviations(t *testing.T) {
	seed := int64(1)
	if s := os.Getenv("VERIF_SEED"); s != "" {
		if v, err := strconv.ParseInt(s, 10, 64); err == nil {
			seed = v
		}
	}
	schemas := 120
	if os.Getenv("VERIF_TIER") == "thorough" {
		schemas = 2000
	}
	rng := rand.New(rand.NewSource(seed))
	evals, nodes, bad := 0, 0, 0
	for n := 0; n < schemas; n++ {
		g := &gxGen{rng: rng, nGroup: rng.Intn(3)}
		g.mkModules()
		for _, m := range g.mods {
			g.topNodes(m)
		}
		g.mkGroupings()
		g.mkInstances()
		base := g.model()
		if len(base.errs) > 0 {
			continue
		}
		for _, r := range base.rootList() {
			r.fixChoices()
		}
		// the deviating module(s): they import everything
		var tops []*gsMod
		for _, m := range g.mods {
			if m.belongs == nil {
				tops = append(tops, m)
			}
		}
		var devMods []*gsMod
		for i := 0; i < 1+rng.Intn(2); i++ {
			dm := &gsMod{name: fmt.Sprintf("dev%d", i), prefix: "dv", imports: map[string]*gsMod{}}
			dm.stmt = gs("module", dm.name)
			for j, o := range tops {
				dm.imports[fmt.Sprintf("i%d", j)] = o
			}
			devMods = append(devMods, dm)
		}
		var cands []*gxNode
		for _, r := range base.rootList() {
			gxCollect(r, func(x *gxNode) bool {
				if x.parent == nil || x.implicit || x.kind == "case" || x.kind == "choice" || x.kind == "input" || x.kind == "output" || x.kind == "rpc" || x.kind == "action" {
					return false
				}
				return x.name != "k"
			}, &cands)
		}
		rng.Shuffle(len(cands), func(a, b int) { cands[a], cands[b] = cands[b], cands[a] })
		ndev := 1 + rng.Intn(5)
		wantBad := rng.Intn(4) == 0
		var used []*gxNode
		for _, x := range cands {
			if ndev == 0 {
				break
			}
			// not inside, nor around, a node that is deviated already (not-supported removes subtrees)
			clash := false
			for _, u := range used {
				for p := x; p != nil; p = p.parent {
					clash = clash || p == u
				}
				for p := u; p != nil; p = p.parent {
					clash = clash || p == x
				}
			}
			if clash {
				continue
			}
			used = append(used, x)
			ndev--
			dm := devMods[rng.Intn(len(devMods))]
			dv := gs("deviation", g.nsPath(dm, x))
			leafy := x.kind == "leaf" || x.kind == "leaf-list"
			listy := x.kind == "list" || x.kind == "leaf-list"
			k := rng.Intn(9) % 8
			if x.kind == "leaf" && len(x.def) == 1 && rng.Intn(2) == 0 {
				k = 1 // a leaf with a default of its own: exercise the default rules
			}
			switch {
			case k == 0:
				dv.add(gs("deviate", "not-supported"))
			case k == 1 && leafy:
				// delete then add: only right in written order
				if len(x.def) == 1 && x.kind == "leaf" && rng.Intn(3) == 0 {
					dv.add(gs("deviate", "add", gs("default", "a-second-default"))) // must be refused
				} else if len(x.def) == 1 && x.kind == "leaf" {
					dv.add(gs("deviate", "delete", gs("default", x.def[0])), gs("deviate", "add", gs("default", "added")))
				} else if x.kind == "leaf" && len(x.def) == 0 {
					dv.add(gs("deviate", "add", gs("default", "first")), gs("deviate", "replace", gs("default", "second")), gs("deviate", "delete", gs("default", "second")), gs("deviate", "add", gs("default", "third")))
				} else if x.kind == "leaf-list" && rng.Intn(2) == 0 {
					dv.add(gs("deviate", "add", gs("default", g.fresh("added"))))
				} else {
					dv.add(gs("deviate", "replace", gs("default", "r1")))
					if x.kind == "leaf-list" {
						dv.add(gs("deviate", "add", gs("default", "r2")))
					}
				}
			case k == 2 && listy:
				switch rng.Intn(3) {
				case 0:
					dv.add(gs("deviate", "replace", gs("min-elements", "2"), gs("max-elements", "4")))
					if rng.Intn(2) == 0 {
						dv.add(gs("deviate", "delete", gs("min-elements", "2")))
					}
				case 1:
					// the values that equal "not given": they are given all the same
					dv.add(gs("deviate", "replace", gs("min-elements", "0"), gs("max-elements", "unbounded")))
				default:
					dv.add(gs("deviate", "replace", gs("min-elements", "0"), gs("max-elements", "6")))
					if rng.Intn(2) == 0 {
						dv.add(gs("deviate", "replace", gs("max-elements", "unbounded")))
					}
				}
			case k == 2 && x.kind == "leaf-list" && false:
				// (kept for symmetry)
			case k == 3:
				dv.add(gs("deviate", "add", gs("config", rngBool(rng))))
			case k == 4 && leafy:
				dv.add(gs("deviate", "replace", gs("type", []string{"int32", "uint8", "boolean", "string"}[rng.Intn(4)]), gs("units", "u2")))
			case k == 5 && x.kind == "leaf":
				dv.add(gs("deviate", "add", gs("mandatory", "true")), gs("deviate", "delete", gs("mandatory", "true")))
				if rng.Intn(2) == 0 {
					dv.kids = dv.kids[:1]
				}
			case k == 6 && x.config != "":
				dv.add(gs("deviate", "delete", gs("config", x.config)))
			default:
				dv.add(gs("deviate", "replace", gs("config", "false")))
			}
			if wantBad {
				wantBad = false
				switch b := rng.Intn(6); {
				case b == 0:
					dv.arg += "/dv:nope"
				case b == 1 && x.kind == "leaf" && len(x.def) == 1:
					dv.kids = []*gsStmt{gs("deviate", "add", gs("default", "again"))}
				case b == 2 && x.kind == "leaf":
					dv.kids = []*gsStmt{gs("deviate", "delete", gs("default", "never-there"))}
				case b == 3 && !listy:
					dv.kids = []*gsStmt{gs("deviate", "add", gs("max-elements", []string{"3", "unbounded"}[rng.Intn(2)]))}
					if rng.Intn(2) == 0 {
						dv.kids = []*gsStmt{gs("deviate", "replace", gs("min-elements", "0"))}
					}
				case b == 5 && leafy:
					dv.kids = []*gsStmt{gs("deviate", "replace", gs("type", "no-such-type"))}
				case b == 4 && listy:
					dv.kids = []*gsStmt{gs("deviate", "delete", gs("max-elements", "77"))}
				default:
					dv.arg += "/dv:nope"
				}
			}
			dm.stmt.add(dv)
		}
		mods := append(append([]*gsMod{}, g.mods...), devMods...)
		var srcs []string
		for _, m := range mods {
			srcs = append(srcs, m.text())
		}
		all := strings.Join(srcs, "")
		for _, ignore := range []bool{false, true} {
			ex := &gxExpander{mods: mods}
			ex.expandAll()
			missing := ex.applyAugments()
			for _, r := range ex.rootList() {
				r.fixChoices()
			}
			ex.applyDeviations(ignore)
			invalid := len(ex.errs) > 0 || len(missing) > 0
			if invalid && !ignore {
				bad++
			}
			evals++
			ms := NewModules()
			ms.ParseOptions.DeviateOptions.IgnoreDeviateNotSupported = ignore
			ok := true
			for _, ix := range rng.Perm(len(srcs)) {
				if err := ms.Parse(srcs[ix], fmt.Sprintf("f%d.yang", ix)); err != nil {
					fmt.Printf("GOVC-FAIL name=c08-deviations schema %d does not parse: %v\n%s\n", n, err, srcs[ix])
					ok = false
				}
			}
			if !ok {
				break
			}
			errs := ms.Process()
			if invalid {
				if len(errs) == 0 {
					fmt.Printf("GOVC-FAIL name=c08-deviation-errors schema %d has a deviation that cannot be applied (%v) and is accepted:\n%s\n", n, ex.errs, all)
				}
				continue
			}
			if len(errs) > 0 {
				fmt.Printf("GOVC-FAIL name=c08-deviations schema %d: every deviation can be applied, Process reports %v\n%s\n", n, errs[0], all)
				break
			}
			fails, cnt := gxCompareAll(ms, ex)
			nodes += cnt
			for _, f := range fails {
				fmt.Printf("GOVC-FAIL name=c08-deviations schema %d (ignore-not-supported=%v): %s\n%s\n", n, ignore, f, all)
			}
			if len(fails) > 0 {
				break
			}
		}
	}
	// fixed case: the copies of a grouping's leaf-list share the array of their defaults
	{
		evals++
		ms := NewModules()
		srcs := []string{
			`module m { namespace "urn:m"; prefix m; grouping g { leaf-list ll { type string; default a; default b; default c; } } container c1 { uses g; } container c2 { uses g; } container c3 { uses g; } }`,
			`module d { namespace "urn:d"; prefix d; import m { prefix m; } deviation "/m:c1/m:ll" { deviate add { default x; } } deviation "/m:c2/m:ll" { deviate add { default y; } } }`}
		for i, src := range srcs {
			if err := ms.Parse(src, fmt.Sprintf("fixed%d.yang", i)); err != nil {
				fmt.Printf("GOVC-FAIL name=c08-deviations fixed case does not parse: %v\n", err)
			}
		}
		if errs := ms.Process(); len(errs) > 0 {
			fmt.Printf("GOVC-FAIL name=c08-deviations fixed case: %v\n", errs)
		} else {
			e := ToEntry(ms.Modules["m"])
			got := fmt.Sprint(e.Dir["c1"].Dir["ll"].Default, e.Dir["c2"].Dir["ll"].Default, e.Dir["c3"].Dir["ll"].Default)
			if got != "[a b c x] [a b c y] [a b c]" {
				fmt.Printf("GOVC-FAIL name=c08-deviations three uses of a grouping's leaf-list, default x added to the first and y to the second: %s\n", got)
			}
		}
	}
	// fixed cases: not-supported on the input and output of an rpc and of an action; two revisions
	// of a deviating module side by side (both apply theirs, in every run)
	{
		evals++
		ms := NewModules()
		for i, src := range []string{
			`module m { namespace "urn:m"; prefix m; rpc r { input { leaf i { type string; } } output { leaf o { type string; } } } container c { action a { input { leaf i { type string; } } output { leaf o { type string; } } } leaf keep { type string; } } }`,
			`module d { namespace "urn:d"; prefix d; import m { prefix m; } deviation "/m:r/m:input" { deviate not-supported; } deviation "/m:c/m:a/m:output" { deviate not-supported; } }`} {
			if err := ms.Parse(src, fmt.Sprintf("rpcdev%d.yang", i)); err != nil {
				fmt.Printf("GOVC-FAIL name=c08-deviations fixed case does not parse: %v\n", err)
			}
		}
		if errs := ms.Process(); len(errs) > 0 {
			fmt.Printf("GOVC-FAIL name=c08-deviations not-supported on rpc input / action output: %v\n", errs)
		} else {
			e := ToEntry(ms.Modules["m"])
			r, a := e.Dir["r"], e.Dir["c"].Dir["a"]
			if r.RPC.Input != nil || r.RPC.Output == nil || a.RPC.Output != nil || a.RPC.Input == nil || e.Dir["c"].Dir["keep"] == nil || len(r.Errors)+len(a.Errors) > 0 {
				fmt.Printf("GOVC-FAIL name=c08-deviations not-supported on /r/input and /c/a/output: rpc input %v output %v, action input %v output %v, errors %v %v\n", r.RPC.Input != nil, r.RPC.Output != nil, a.RPC.Input != nil, a.RPC.Output != nil, r.Errors, a.Errors)
			}
		}
		// deviate statements written on one line still take effect in written order; deviations
		// written in a submodule of the deviating module are applied (and a missing target reported)
		{
			evals++
			ms := NewModules()
			for i, src := range []string{
				`module m { namespace "urn:m"; prefix m; leaf a { type string; default "old"; } leaf b { type string; } leaf c { type string; } }`,
				`module d { namespace "urn:d"; prefix d; import m { prefix m; } include ds; deviation "/m:a" { deviate delete { default "old"; } deviate add { default "new"; } } }`,
				`submodule ds { belongs-to d { prefix d; } import m { prefix m; } deviation "/m:b" { deviate not-supported; } deviation "/m:c" { deviate add { config false; } } }`} {
				if err := ms.Parse(src, fmt.Sprintf("ol%d.yang", i)); err != nil {
					fmt.Printf("GOVC-FAIL name=c08-deviations fixed case does not parse: %v\n", err)
				}
			}
			if errs := ms.Process(); len(errs) > 0 {
				fmt.Printf("GOVC-FAIL name=c08-deviations delete and add on one line, deviations in a submodule: %v\n", errs)
			} else {
				e := ToEntry(ms.Modules["m"])
				if a := e.Dir["a"]; a == nil || len(a.Default) != 1 || a.Default[0] != "new" {
					fmt.Printf("GOVC-FAIL name=c08-deviations \"deviate delete {default old;} deviate add {default new;}\" on one line: default is not [new]\n")
				}
				if e.Dir["b"] != nil || e.Dir["c"] == nil || e.Dir["c"].Config != TSFalse {
					fmt.Printf("GOVC-FAIL name=c08-deviations the deviations written in the submodule of the deviating module are not applied\n")
				}
			}
			evals++
			ms = NewModules()
			for i, src := range []string{
				`module m { namespace "urn:m"; prefix m; leaf a { type string; } }`,
				`module d { namespace "urn:d"; prefix d; include ds; }`,
				`submodule ds { belongs-to d { prefix d; } import m { prefix m; } deviation "/m:nosuch" { deviate not-supported; } }`} {
				if err := ms.Parse(src, fmt.Sprintf("ms%d.yang", i)); err != nil {
					fmt.Printf("GOVC-FAIL name=c08-deviation-errors fixed case does not parse: %v\n", err)
				}
			}
			if errs := ms.Process(); len(errs) == 0 {
				fmt.Printf("GOVC-FAIL name=c08-deviation-errors a deviation of a missing target written in a submodule is not reported\n")
			}
		}
		for run := 0; run < 12; run++ {
			evals++
			ms := NewModules()
			for i, src := range []string{
				`module m { namespace "urn:m"; prefix m; leaf one { type string; } leaf two { type string; } leaf three { type string; } }`,
				`module dev { namespace "urn:dev"; prefix dev; import m { prefix m; } revision 2020-01-01; deviation "/m:one" { deviate not-supported; } }`,
				`module dev { namespace "urn:dev"; prefix dev; import m { prefix m; } revision 2021-01-01; deviation "/m:two" { deviate not-supported; } }`} {
				if err := ms.Parse(src, fmt.Sprintf("revdev%d.yang", i)); err != nil {
					fmt.Printf("GOVC-FAIL name=c08-deviations fixed case does not parse: %v\n", err)
				}
			}
			errs := ms.Process()
			e := ToEntry(ms.Modules["m"])
			if len(errs) > 0 || e.Dir["one"] != nil || e.Dir["two"] != nil || e.Dir["three"] == nil {
				fmt.Printf("GOVC-FAIL name=c08-deviations two revisions of a deviating module (run %d): errors %v, one %v two %v three %v (want both removed)\n", run, errs, e.Dir["one"] != nil, e.Dir["two"] != nil, e.Dir["three"] != nil)
				break
			}
		}
	}
	fmt.Printf("GOVC-BOUNDED name=c08-deviations-vs-model bound=%d_random_schemas_with_1-5_deviations_(several_deviate_statements_each,_seed_%d;_%d_with_a_deviation_that_cannot_be_applied)_x_2_option_settings evaluations=%d distinct=%d\n", schemas, seed, bad, evals, nodes)
}

func rngBool(rng *rand.Rand) string {
	if rng.Intn(2) == 0 {
		return "true"
	}
	return "false"
}
