package yang

// Fixed cases for two OPEN findings of C13 (see KNOWN_FINDINGS.txt), kept so
// that the defects stay visible and anything else that goes wrong around them
// is still reported under another name.

import (
	"fmt"
	"sort"
	"strings"
	"testing"
)

func TestGovcBoundedC13OpenFindings(t *testing.T) {
	load := func(srcs ...string) *Modules {
		ms := NewModules()
		for i, s := range srcs {
			if err := ms.Parse(s, fmt.Sprintf("o%d.yang", i)); err != nil {
				fmt.Printf("GOVC-FAIL name=c13-open-cases a text does not load: %v\n", err)
			}
		}
		return ms
	}
	keys := func(e *Entry) string {
		var s []string
		for k := range e.Dir {
			s = append(s, k)
		}
		sort.Strings(s)
		return strings.Join(s, ",")
	}
	// 1. two revisions of a module that include the same submodule: both get its nodes
	bad := ""
	for run := 0; run < 6 && bad == ""; run++ {
		ms := load(
			`module m { prefix m; namespace "urn:m"; include s; revision 2020-01-01; leaf a { type string; } }`,
			`module m { prefix m; namespace "urn:m"; include s; revision 2021-01-01; leaf a { type string; } }`,
			`submodule s { belongs-to m { prefix m; } leaf x { type string; } }`)
		if errs := ms.Process(); len(errs) > 0 {
			bad = fmt.Sprint(errs)
			break
		}
		for _, k := range []string{"m@2020-01-01", "m@2021-01-01"} {
			if got := keys(ToEntry(ms.Modules[k])); got != "a,x" {
				bad = k + " has the data nodes [" + got + "], want [a,x]"
			}
		}
	}
	if bad != "" {
		fmt.Printf("GOVC-FAIL name=c13-two-revisions-include-one-submodule %s\n", bad)
	}
	// 2. a submodule included by an included submodule: its typedefs and identities count too
	ms := load(
		`module m { prefix m; namespace "urn:m"; include a; leaf l { type tb; } leaf r { type identityref { base ib; } } }`,
		`submodule a { belongs-to m { prefix m; } include b; }`,
		`submodule b { belongs-to m { prefix m; } typedef tb { type string; } identity ib; leaf lb { type string; } }`)
	if errs := ms.Process(); len(errs) > 0 {
		fmt.Printf("GOVC-FAIL name=c13-nested-include-definitions m includes a, a includes b: the data node of b reaches m, its typedef and identity do not: %v\n", errs)
	} else if ToEntry(ms.Modules["m"]).Dir["lb"] == nil {
		fmt.Printf("GOVC-FAIL name=c13-open-cases the data node of a nested include does not reach the module\n")
	}
	fmt.Printf("GOVC-BOUNDED name=c13-open-cases bound=2_fixed_sets evaluations=7 distinct=2\n")
}
