package yang

// Bounded stand-ins for the clauses of C13 that need real directories or whole
// load histories: file selection by findInDir over every subset of a pool of
// candidate names, and load-order independence of the module maps over every
// permutation of small sets of module headers.

import (
	"fmt"
	"os"
	"path/filepath"
	"sort"
	"strings"
	"testing"
)

func TestGovcBoundedC13FindInDir(t *testing.T) {
	pool := []string{"foo.yang", "foo@2020-01-01.yang", "foo@2021-06-30.yang", "foo@2019-12-31.yang", "foobar.yang", "foobar@2022-01-01.yang",
		"foo@bar.yang", "foo@2020-1-1.yang", "xfoo.yang", "foo.yang.bak", "foo@2023-01-01.yangx", "foo@2024-01-01.yang.orig"}
	valid := map[string]bool{"foo@2020-01-01.yang": true, "foo@2021-06-30.yang": true, "foo@2019-12-31.yang": true}
	base, err := os.MkdirTemp("", "govc-c13")
	if err != nil {
		t.Fatal(err)
	}
	defer os.RemoveAll(base)
	evals := 0
	for mask := 0; mask < 1<<len(pool); mask++ {
		dir := filepath.Join(base, fmt.Sprint(mask))
		os.Mkdir(dir, 0o755)
		var present []string
		for i, n := range pool {
			if mask&(1<<i) != 0 {
				present = append(present, n)
				os.WriteFile(filepath.Join(dir, n), []byte("x"), 0o644)
			}
		}
		want := ""
		if mask&1 != 0 {
			want = filepath.Join(dir, "foo.yang")
		} else {
			var revs []string
			for _, n := range present {
				if valid[n] {
					revs = append(revs, n)
				}
			}
			sort.Strings(revs)
			if len(revs) > 0 {
				want = filepath.Join(dir, revs[len(revs)-1])
			}
		}
		evals++
		if got := findInDir(dir, "foo.yang", false); got != want {
			fmt.Printf("GOVC-FAIL name=c13-findindir directory holding %v: findInDir(foo.yang) = %q, want %q\n", present, got, want)
		}
		os.RemoveAll(dir)
	}
	// a module name with characters that mean something in a regular expression: the files
	// of differently named modules (acme-ext, acmeXext, acme.extra) are never candidates
	pool2 := []string{"acme.ext.yang", "acme.ext@2020-01-01.yang", "acme.ext@2018-03-04.yang", "acme-ext@2024-05-05.yang", "acmeXext@2023-01-01.yang", "acme-ext.yang", "acme.extra@2025-01-01.yang", "acme.ext@2026-01-01.yang.orig", "acme+ext@2022-02-02.yang"}
	valid2 := map[string]bool{"acme.ext@2020-01-01.yang": true, "acme.ext@2018-03-04.yang": true}
	for mask := 0; mask < 1<<len(pool2); mask++ {
		dir := filepath.Join(base, fmt.Sprintf("d%d", mask))
		os.Mkdir(dir, 0o755)
		var present []string
		for i, n := range pool2 {
			if mask&(1<<i) != 0 {
				present = append(present, n)
				os.WriteFile(filepath.Join(dir, n), []byte("x"), 0o644)
			}
		}
		want := ""
		if mask&1 != 0 {
			want = filepath.Join(dir, "acme.ext.yang")
		} else {
			var revs []string
			for _, n := range present {
				if valid2[n] {
					revs = append(revs, n)
				}
			}
			sort.Strings(revs)
			if len(revs) > 0 {
				want = filepath.Join(dir, revs[len(revs)-1])
			}
		}
		evals++
		if got := findInDir(dir, "acme.ext.yang", false); got != want {
			fmt.Printf("GOVC-FAIL name=c13-findindir directory holding %v: findInDir(acme.ext.yang) = %q, want %q\n", present, got, want)
		}
		os.RemoveAll(dir)
	}
	// first search-path directory holding a candidate wins
	d1, d2 := filepath.Join(base, "p1"), filepath.Join(base, "p2")
	os.Mkdir(d1, 0o755)
	os.Mkdir(d2, 0o755)
	os.WriteFile(filepath.Join(d1, "foo@2020-01-01.yang"), []byte("module foo { namespace u; prefix p; revision 2020-01-01; }"), 0o644)
	os.WriteFile(filepath.Join(d2, "foo.yang"), []byte("module foo { namespace u; prefix p; }"), 0o644)
	os.WriteFile(filepath.Join(d2, "foo@2022-01-01.yang"), []byte("module foo { namespace u; prefix p; revision 2022-01-01; }"), 0o644)
	ms := NewModules()
	ms.AddPath(d1, d2)
	evals++
	name, _, err := ms.findFile("foo")
	if err != nil || name != filepath.Join(d1, "foo@2020-01-01.yang") {
		fmt.Printf("GOVC-FAIL name=c13-findindir search path [p1 p2]: findFile(foo) = %q, %v; want the candidate in the first directory\n", name, err)
	}
	fmt.Printf("GOVC-BOUNDED name=c13-file-selection bound=all_%d_subsets_of_%d_candidate_file_names,_all_%d_subsets_of_%d_for_a_name_with_a_dot,_two-directory_search_path evaluations=%d distinct=%d\n", 1<<len(pool), len(pool), 1<<len(pool2), len(pool2), evals, evals)
}

type govcHdr struct{ name, rev string }

func (h govcHdr) text() string {
	r := ""
	if h.rev != "" {
		r = " revision " + h.rev + ";"
	}
	return fmt.Sprintf("module %s { namespace \"urn:%s\"; prefix p;%s }", h.name, h.name, r)
}

func govcPerms(n int) [][]int {
	if n == 0 {
		return [][]int{{}}
	}
	var out [][]int
	for _, p := range govcPerms(n - 1) {
		for i := 0; i <= len(p); i++ {
			q := append(append(append([]int{}, p[:i]...), n-1), p[i:]...)
			out = append(out, q)
		}
	}
	return out
}

func TestGovcBoundedC13LoadOrder(t *testing.T) {
	pool := []govcHdr{{"m", ""}, {"m", "2020-01-01"}, {"m", "2021-06-30"}, {"n", ""}, {"n", "2019-05-05"}, {"m", "2020-01-01"}}
	evals, distinct := 0, 0
	knownSeen := false
	for mask := 1; mask < 1<<len(pool); mask++ {
		var set []govcHdr
		for i, h := range pool {
			if mask&(1<<i) != 0 {
				set = append(set, h)
			}
		}
		if len(set) > 3 {
			continue
		}
		// the recorded finding: a revision-less module together with a revisioned one of the same name
		mixed := false
		for _, a := range set {
			for _, b := range set {
				if a.name == b.name && (a.rev == "") != (b.rev == "") {
					mixed = true
				}
			}
		}
		distinct++
		var first string
		for _, perm := range govcPerms(len(set)) {
			evals++
			ms := NewModules()
			var outcome []string
			rejected := map[string]int{}
			for _, ix := range perm {
				h := set[ix]
				if err := ms.Parse(h.text(), h.name+".yang"); err != nil {
					rejected[h.name+"@"+h.rev]++
				}
			}
			var keys []string
			for k, m := range ms.Modules {
				keys = append(keys, k+"->"+m.FullName())
			}
			sort.Strings(keys)
			var rj []string
			for k, c := range rejected {
				rj = append(rj, fmt.Sprintf("%s x%d", k, c))
			}
			sort.Strings(rj)
			outcome = append(outcome, strings.Join(keys, ","), "rejected:"+strings.Join(rj, ","))
			o := strings.Join(outcome, " | ")
			if first == "" {
				first = o
				if !mixed {
					// expectations: every distinct header loaded once, bare name = latest, same header twice rejected once
					seen := map[string]bool{}
					latest := map[string]string{}
					dups := 0
					for _, h := range set {
						fn := h.name
						if h.rev != "" {
							fn += "@" + h.rev
						}
						if seen[fn] {
							dups++
							continue
						}
						seen[fn] = true
						if fn > latest[h.name] {
							latest[h.name] = fn
						}
					}
					for fn := range seen {
						if ms.Modules[fn] == nil || ms.Modules[fn].FullName() != fn {
							fmt.Printf("GOVC-FAIL name=c13-load-order set %v: %s is not denoted by its full name\n", set, fn)
						}
					}
					for n, fn := range latest {
						if ms.Modules[n] == nil || ms.Modules[n].FullName() != fn {
							fmt.Printf("GOVC-FAIL name=c13-load-order set %v: bare name %s does not denote the latest revision %s\n", set, n, fn)
						}
					}
					tot := 0
					for _, c := range rejected {
						tot += c
					}
					if tot != dups {
						fmt.Printf("GOVC-FAIL name=c13-load-order set %v: %d loads rejected, %d duplicates offered\n", set, tot, dups)
					}
				}
			} else if o != first {
				if mixed {
					if !knownSeen {
						knownSeen = true
						fmt.Printf("GOVC-FAIL name=c13-revisionless-order set %v: load order changes the outcome: %q vs %q\n", set, first, o)
					}
				} else {
					fmt.Printf("GOVC-FAIL name=c13-load-order set %v: load order changes the outcome: %q vs %q\n", set, first, o)
				}
				break
			}
		}
	}
	fmt.Printf("GOVC-BOUNDED name=c13-load-order-independence bound=all_sets_of_<=3_of_%d_module_headers_x_all_permutations evaluations=%d distinct=%d\n", len(pool), evals, distinct)
}
