package yang

// Bounded stand-in for "an import or include with a revision-date denotes
// exactly that revision" and "an included submodule contributes its nodes,
// typedefs, groupings and identities exactly as if they were written there",
// for sets in which several revisions of a module are loaded side by side:
// every revision, with what it includes and imports, must come out exactly as
// it does when the other revisions of its own name are not loaded at all.

import (
	"fmt"
	"sort"
	"strings"
	"testing"
)

func govcRenderEntry(e *Entry) string {
	var sb strings.Builder
	var walk func(e *Entry, ind string)
	walk = func(e *Entry, ind string) {
		if e == nil {
			return
		}
		ty := ""
		if e.Type != nil {
			ty = TypeKindToName[e.Type.Kind] + " units=" + e.Type.Units
			if e.Type.IdentityBase != nil {
				var vs []string
				for _, v := range e.Type.IdentityBase.Values {
					vs = append(vs, v.Name)
				}
				ty += " idref=" + e.Type.IdentityBase.Name + "[" + strings.Join(vs, ",") + "]"
			}
		}
		ns := ""
		if v := e.Namespace(); v != nil {
			ns = v.Name
		}
		fmt.Fprintf(&sb, "%s%s kind=%v type=[%s] default=%v ns=%s errors=%d\n", ind, e.Name, e.Kind, ty, e.DefaultValues(), ns, len(e.Errors))
		var ks []string
		for k := range e.Dir {
			ks = append(ks, k)
		}
		sort.Strings(ks)
		for _, k := range ks {
			walk(e.Dir[k], ind+"  ")
		}
		if e.RPC != nil {
			walk(e.RPC.Input, ind+"  ")
			walk(e.RPC.Output, ind+"  ")
		}
	}
	walk(e, "")
	return sb.String()
}

type govcRevSet struct {
	name    string
	sources map[string]string   // key -> text
	alone   map[string][]string // module key (as in Modules.Modules) -> the keys of the sources it needs, itself included
}

func govcRevSets() []govcRevSet {
	lib := func(rev, extra string) string {
		return `module lib { namespace "urn:lib"; prefix l; revision ` + rev + `; typedef lt { type int16; units u` + rev[:4] + `; } grouping g { leaf from-lib-` + rev[:4] + ` { type lt; } ` + extra + ` } identity lbase; }`
	}
	app := func(rev, sub, imp string) string {
		return `module app { namespace "urn:app"; prefix a; import lib { prefix l; ` + imp + ` } include ` + sub + `; revision ` + rev + `;
  container top { uses l:g; uses sg-` + sub + `; leaf own { type st-` + sub + `; } leaf ref { type identityref { base a:root-` + sub + `; } } }
  identity leaf-id-` + sub + ` { base root-` + sub + `; } }` // (an identity of the same name in two revisions of one module is a recorded finding of its own, see c11-same-identity-in-two-revisions)
	}
	subm := func(name string) string {
		return `submodule ` + name + ` { belongs-to app { prefix a; } typedef st-` + name + ` { type uint8; default 7; } grouping sg-` + name + ` { leaf in-` + name + ` { type string; } }
  container c-` + name + ` { leaf x { type st-` + name + `; } } identity root-` + name + `; identity sub-id-` + name + ` { base root-` + name + `; } }`
	}
	return []govcRevSet{
		{"three-revisions-of-an-including-and-importing-module",
			map[string]string{
				"lib18": lib("2018-01-01", ""), "lib20": lib("2020-01-01", "leaf newer { type string; }"),
				"app17": app("2017-01-01", "app-old", ""), "app19": app("2019-01-01", "app-legacy", "revision-date 2018-01-01;"), "app21": app("2021-01-01", "app-core", ""),
				"app-old": subm("app-old"), "app-legacy": subm("app-legacy"), "app-core": subm("app-core"),
			},
			map[string][]string{
				"app@2017-01-01": {"app17", "app-old", "lib18", "lib20"},
				"app@2019-01-01": {"app19", "app-legacy", "lib18", "lib20"},
				"app@2021-01-01": {"app21", "app-core", "lib18", "lib20"},
			}},
		{"an-older-revision-includes-a-submodule-the-newer-one-dropped",
			map[string]string{
				"m20":    `module m { namespace "urn:m"; prefix m; include legacy; revision 2020-01-01; container c { uses lg; } }`,
				"m21":    `module m { namespace "urn:m"; prefix m; revision 2021-01-01; container c { leaf only21 { type string; } } }`,
				"legacy": `submodule legacy { belongs-to m { prefix m; } identity transport; identity tcp { base transport; } identity udp { base transport; } grouping lg { leaf t { type identityref { base transport; } } } container from-legacy; }`,
				"u":      `module u { namespace "urn:u"; prefix u; import m { prefix m; revision-date 2020-01-01; } leaf how { type identityref { base m:transport; } } container k { uses m:lg; } }`,
			},
			map[string][]string{
				"m@2020-01-01": {"m20", "legacy"},
				"u":            {"u", "m20", "legacy"},
			}},
	}
}

func TestGovcBoundedC13SideBySideRevisions(t *testing.T) {
	evals, cases := 0, 0
	for _, set := range govcRevSets() {
		var keys []string
		for k := range set.sources {
			keys = append(keys, k)
		}
		sort.Strings(keys)
		// what every module looks like when only what it needs is loaded
		alone := map[string]string{}
		var mkeys []string
		for mk := range set.alone {
			mkeys = append(mkeys, mk)
		}
		sort.Strings(mkeys)
		for _, mk := range mkeys {
			ms := NewModules()
			for _, k := range set.alone[mk] {
				if err := ms.Parse(set.sources[k], k+".yang"); err != nil {
					fmt.Printf("GOVC-FAIL name=c13-side-by-side-revisions set %s: %s does not load: %v\n", set.name, k, err)
				}
			}
			if errs := ms.Process(); len(errs) > 0 {
				fmt.Printf("GOVC-FAIL name=c13-side-by-side-revisions set %s: %s alone with what it needs: %v\n", set.name, mk, errs)
				continue
			}
			if ms.Modules[mk] == nil {
				fmt.Printf("GOVC-FAIL name=c13-side-by-side-revisions set %s: no module %s\n", set.name, mk)
				continue
			}
			alone[mk] = govcRenderEntry(ToEntry(ms.Modules[mk]))
		}
		// all together, in several load orders, several runs each (map order)
		for rot := 0; rot < len(keys); rot++ {
			for run := 0; run < 3; run++ {
				evals++
				ms := NewModules()
				for i := range keys {
					k := keys[(i+rot)%len(keys)]
					if rot%2 == 1 {
						k = keys[(len(keys)-1-i+rot)%len(keys)]
					}
					if err := ms.Parse(set.sources[k], k+".yang"); err != nil {
						fmt.Printf("GOVC-FAIL name=c13-side-by-side-revisions set %s: %s does not load next to the others: %v\n", set.name, k, err)
					}
				}
				if errs := ms.Process(); len(errs) > 0 {
					fmt.Printf("GOVC-FAIL name=c13-side-by-side-revisions set %s (rotation %d): the revisions side by side: %v\n", set.name, rot, errs)
					continue
				}
				for _, mk := range mkeys {
					cases++
					m := ms.Modules[mk]
					if m == nil {
						fmt.Printf("GOVC-FAIL name=c13-side-by-side-revisions set %s (rotation %d): no module %s\n", set.name, rot, mk)
						continue
					}
					if got := govcRenderEntry(ToEntry(m)); got != alone[mk] {
						fmt.Printf("GOVC-FAIL name=c13-side-by-side-revisions set %s (rotation %d): %s differs from what it is without the other revisions\n--- side by side\n%s--- alone\n%s", set.name, rot, mk, got, alone[mk])
					}
					for _, im := range m.Import {
						if im.RevisionDate != nil && (im.Module == nil || im.Module.Current() != im.RevisionDate.Name) {
							fmt.Printf("GOVC-FAIL name=c13-side-by-side-revisions set %s: import %s revision-date %s of %s is not bound to that revision\n", set.name, im.Name, im.RevisionDate.Name, mk)
						}
						if im.Module == nil {
							fmt.Printf("GOVC-FAIL name=c13-side-by-side-revisions set %s: import %s of %s is not bound\n", set.name, im.Name, mk)
						}
					}
					for _, in := range m.Include {
						if in.Module == nil {
							fmt.Printf("GOVC-FAIL name=c13-side-by-side-revisions set %s: include %s of %s is not bound\n", set.name, in.Name, mk)
						}
					}
				}
			}
		}
	}
	fmt.Printf("GOVC-BOUNDED name=c13-side-by-side-revisions bound=2_sets_with_several_revisions_of_one_module_loaded_together_x_all_rotations_of_the_load_order_(both_directions)_x_3_runs evaluations=%d distinct=%d\n", evals, cases)
}
