package yang

// Bounded stand-in for the string-content clauses of C15 (print -> parse round
// trip, exact rendering, literal denotation) and a differential check of the
// contract's own notion of comparison against math/big. Run by /verif/check
// through -overlay; never part of the repository.

import (
	"fmt"
	"math/big"
	"strings"
	"testing"
)

func govcGrid() []uint64 {
	seen := map[uint64]bool{}
	var out []uint64
	add := func(v uint64) {
		if !seen[v] {
			seen[v] = true
			out = append(out, v)
		}
	}
	for _, v := range []uint64{0, 1, 2, 5, 9, 10, 11, 99, 100, 101, 12345, 1<<31 - 1, 1 << 31, 1<<32 - 1, 1 << 32, 1<<63 - 1, 1 << 63, 1<<63 + 1, 1<<64 - 2, 1<<64 - 1} {
		add(v)
	}
	p := uint64(1)
	for k := 1; k <= 19; k++ {
		p *= 10
		add(p - 1)
		add(p)
		add(p + 1)
	}
	return out
}

func govcExact(n Number) *big.Rat {
	m := new(big.Int).SetUint64(n.Value)
	if n.Negative {
		m.Neg(m)
	}
	d := new(big.Int).Exp(big.NewInt(10), big.NewInt(int64(n.FractionDigits)), nil)
	return new(big.Rat).SetFrac(m, d)
}

// govcRender is the exact decimal rendering of n with its fraction digits.
func govcRender(n Number) string {
	s := new(big.Int).SetUint64(n.Value).String()
	fd := int(n.FractionDigits)
	if fd > 0 {
		for len(s) <= fd {
			s = "0" + s
		}
		s = s[:len(s)-fd] + "." + s[len(s)-fd:]
	}
	if n.Negative {
		s = "-" + s
	}
	return s
}

func TestGovcBoundedC15RoundTrip(t *testing.T) {
	evals, distinct := 0, 0
	for _, v := range govcGrid() {
		for _, neg := range []bool{false, true} {
			for fd := 0; fd <= 18; fd++ {
				n := Number{Value: v, Negative: neg, FractionDigits: uint8(fd)}
				distinct++
				// exact rendering
				evals++
				if got, want := n.String(), govcRender(n); got != want {
					fmt.Printf("GOVC-FAIL name=c15-render %#v prints %q, exact rendering is %q\n", n, got, want)
				}
				// print -> parse at the same precision gives an equal number
				var back Number
				var err error
				if fd == 0 {
					back, err = ParseInt(n.String())
				} else {
					// decimal64 mantissas are signed 64-bit
					lim := uint64(1<<63 - 1)
					if neg {
						lim = 1 << 63
					}
					if v > lim {
						continue
					}
					back, err = ParseDecimal(n.String(), uint8(fd))
				}
				evals++
				if err != nil {
					fmt.Printf("GOVC-FAIL name=c15-roundtrip %#v prints %q which does not parse back: %v\n", n, n.String(), err)
					continue
				}
				if govcExact(back).Cmp(govcExact(n)) != 0 || back.FractionDigits != n.FractionDigits {
					fmt.Printf("GOVC-FAIL name=c15-roundtrip %#v prints %q which parses back as %#v\n", n, n.String(), back)
				}
			}
		}
	}
	fmt.Printf("GOVC-BOUNDED name=c15-render-roundtrip bound=grid_of_%d_magnitudes_x_sign_x_fd_0..18 evaluations=%d distinct=%d\n", len(govcGrid()), evals, distinct)
}

func TestGovcBoundedC15Compare(t *testing.T) {
	var nums []Number
	for _, v := range govcGrid() {
		for _, neg := range []bool{false, true} {
			for _, fd := range []uint8{0, 1, 2, 9, 17, 18} {
				nums = append(nums, Number{Value: v, Negative: neg, FractionDigits: fd})
			}
		}
	}
	evals := 0
	step := 1
	if len(nums) > 400 {
		step = len(nums)/400 + 1
	}
	var sel []Number
	for i := 0; i < len(nums); i += step {
		sel = append(sel, nums[i])
	}
	// always include the extremes and zeros
	sel = append(sel, Number{Value: 0, Negative: true}, Number{Value: 0}, Number{Value: 1<<64 - 1, FractionDigits: 18}, Number{Value: 1<<64 - 1, Negative: true, FractionDigits: 18},
		Number{Value: 1<<64 - 1}, Number{Value: 1<<64 - 1, Negative: true}, Number{Value: 1 << 63, FractionDigits: 1}, Number{Value: 1<<63 - 1, FractionDigits: 1})
	for _, a := range sel {
		for _, b := range sel {
			evals++
			c := govcExact(a).Cmp(govcExact(b))
			if got := a.Less(b); got != (c < 0) {
				fmt.Printf("GOVC-FAIL name=c15-compare Less(%#v, %#v) = %v, exact comparison says %v\n", a, b, got, c < 0)
			}
			if got := a.Equal(b); got != (c == 0) {
				fmt.Printf("GOVC-FAIL name=c15-compare Equal(%#v, %#v) = %v, exact comparison says %v\n", a, b, got, c == 0)
			}
		}
	}
	fmt.Printf("GOVC-BOUNDED name=c15-compare-vs-big.Rat bound=%d_numbers_all_pairs evaluations=%d distinct=%d\n", len(sel), evals, len(sel)*len(sel))
}

func TestGovcBoundedC15Literals(t *testing.T) {
	// all literals [sign] digits [. digits] with at most 4 digits in total and
	// no superfluous leading zeros, at several precisions; plus boundary lengths
	var lits []string
	digits := []string{"0", "1", "5", "9"}
	var gen func(prefix string, n int)
	var ints []string
	gen = func(prefix string, n int) {
		if prefix != "" {
			ints = append(ints, prefix)
		}
		if n == 0 {
			return
		}
		for _, d := range digits {
			if prefix == "0" {
				continue // no superfluous leading zeros
			}
			gen(prefix+d, n-1)
		}
	}
	gen("", 3)
	var fracs []string
	var genf func(prefix string, n int)
	genf = func(prefix string, n int) {
		if prefix != "" {
			fracs = append(fracs, prefix)
		}
		if n == 0 {
			return
		}
		for _, d := range digits {
			genf(prefix+d, n-1)
		}
	}
	genf("", 3)
	for _, sign := range []string{"", "-", "+"} {
		for _, i := range ints {
			lits = append(lits, sign+i)
			for _, f := range fracs {
				if len(i)+len(f) <= 4 {
					lits = append(lits, sign+i+"."+f)
				}
			}
		}
	}
	// boundary literals
	lits = append(lits, "9223372036854775807", "9223372036854775808", "-9223372036854775808", "-9223372036854775809",
		"922337203685477580.7", "922337203685477580.8", "-922337203685477580.8", "-922337203685477580.9",
		"9.223372036854775807", "9.223372036854775808", "-9.223372036854775808", "-9.223372036854775809", "0.000000000000000001", "0.0000000000000000001",
		"0."+strings.Repeat("0", 254)+"5", "0."+strings.Repeat("0", 255)+"5", "0."+strings.Repeat("0", 256)+"5", "1."+strings.Repeat("0", 255), "1."+strings.Repeat("0", 256)+"0")
	evals := 0
	for _, lit := range lits {
		for _, fd := range []uint8{1, 2, 3, 4, 17, 18} {
			evals++
			n, err := ParseDecimal(lit, fd)
			// what the literal denotes
			r, ok := new(big.Rat).SetString(strings.TrimPrefix(lit, "+"))
			if !ok {
				continue
			}
			scaled := new(big.Rat).Mul(r, new(big.Rat).SetInt(new(big.Int).Exp(big.NewInt(10), big.NewInt(int64(fd)), nil)))
			fits := scaled.IsInt() && scaled.Num().IsInt64()
			// digits after the point beyond fd are too much precision even when zero
			tooPrecise := false
			if dot := strings.Index(lit, "."); dot >= 0 && len(lit)-1-dot > int(fd) {
				tooPrecise = true
			}
			if err == nil {
				if tooPrecise || !fits {
					fmt.Printf("GOVC-FAIL name=c15-literal ParseDecimal(%q, %d) = %#v, nil but the literal does not fit that precision / 64 bits\n", govcShort(lit), fd, n)
					continue
				}
				if govcExact(n).Cmp(r) != 0 || n.FractionDigits != fd {
					fmt.Printf("GOVC-FAIL name=c15-literal ParseDecimal(%q, %d) = %#v (%s), the literal denotes %s\n", govcShort(lit), fd, n, govcExact(n).RatString(), r.RatString())
				}
			} else if fits && !tooPrecise {
				fmt.Printf("GOVC-FAIL name=c15-literal ParseDecimal(%q, %d) fails (%v) although the literal fits\n", govcShort(lit), fd, err)
			}
		}
	}
	// integers
	for _, lit := range []string{"0", "1", "-1", "+7", "18446744073709551615", "18446744073709551616", "-18446744073709551615", "-18446744073709551616", "9223372036854775808", "-9223372036854775808"} {
		evals++
		n, err := ParseInt(lit)
		want, _ := new(big.Int).SetString(strings.TrimPrefix(lit, "+"), 10)
		fits := new(big.Int).Abs(want).IsUint64()
		if err == nil {
			if !fits || govcExact(n).Cmp(new(big.Rat).SetInt(want)) != 0 || n.FractionDigits != 0 {
				fmt.Printf("GOVC-FAIL name=c15-literal ParseInt(%q) = %#v, the literal denotes %s\n", lit, n, want)
			}
			// Int(): exact or error, never wrapped
			i, ierr := n.Int()
			if ierr == nil && big.NewInt(i).Cmp(want) != 0 {
				fmt.Printf("GOVC-FAIL name=c15-literal (%#v).Int() = %d, exact value is %s\n", n, i, want)
			}
			if ierr != nil && want.IsInt64() {
				fmt.Printf("GOVC-FAIL name=c15-literal (%#v).Int() fails (%v) although %s fits int64\n", n, ierr, want)
			}
		} else if fits {
			fmt.Printf("GOVC-FAIL name=c15-literal ParseInt(%q) fails (%v) although it fits 64 bits\n", lit, err)
		}
	}
	fmt.Printf("GOVC-BOUNDED name=c15-literal-denotation bound=literals_of_up_to_4_digits_over_0,1,5,9_plus_boundary_literals_x_6_precisions evaluations=%d distinct=%d\n", evals, len(lits))
}

func govcShort(s string) string {
	if len(s) > 40 {
		return fmt.Sprintf("%s...(%d bytes)", s[:20], len(s))
	}
	return s
}
