package yang

// Bounded stand-in for C06: random schemas with groupings defined at module and
// submodule top level, inside containers and inside other groupings (a small
// pool of names, so they shadow one another), used across modules under
// arbitrary prefixes and nested through uses; leaf types inside groupings are
// typedef names that mean something different in every module. The expected
// tree comes from the independent expander of the shared model file: every use
// must be a faithful copy (names, kinds, types resolved where the grouping is
// defined, defaults, config, list bounds, nesting), belong to the namespace of
// the using module, and share no node object with any other use. One instance
// is then changed by an augment: every other instance must stay as it was.

import (
	"fmt"
	"math/rand"
	"os"
	"strconv"
	"strings"
	"testing"
)

func TestGovcBoundedC06Groupings(t *testing.T) {
	seed := int64(1)
	if s := os.Getenv("VERIF_SEED"); s != "" {
		if v, err := strconv.ParseInt(s, 10, 64); err == nil {
			seed = v
		}
	}
	schemas := 120
	if os.Getenv("VERIF_TIER") == "thorough" {
		schemas = 2000
	}
	rng := rand.New(rand.NewSource(seed))
	evals, nodes, invalid := 0, 0, 0
	for n := 0; n < schemas; n++ {
		g := &gxGen{rng: rng, nGroup: 3 + rng.Intn(6)}
		g.mkModules()
		g.mkGroupings()
		g.mkInstances()
		// change one instance: an augment that adds a leaf to it
		if len(g.instancePaths) > 0 && rng.Intn(2) == 0 {
			ip := g.instancePaths[rng.Intn(len(g.instancePaths))]
			m := g.modByName(ip[0])
			m.stmt.add(gs("augment", ip[1], gs("leaf", "added-by-augment", gs("type", "string"))))
		}
		ex := &gxExpander{mods: g.mods}
		ex.expandAll()
		missing := ex.applyAugments()
		for _, r := range ex.rootList() {
			r.fixChoices()
		}
		var srcs []string
		for _, m := range g.mods {
			srcs = append(srcs, m.text())
		}
		all := strings.Join(srcs, "")
		for run := 0; run < 2; run++ {
			evals++
			ms := NewModules()
			ok := true
			for _, ix := range rng.Perm(len(srcs)) {
				if err := ms.Parse(srcs[ix], fmt.Sprintf("f%d.yang", ix)); err != nil {
					fmt.Printf("GOVC-FAIL name=c06-grouping-expansion schema %d does not parse: %v\n%s\n", n, err, srcs[ix])
					ok = false
				}
			}
			if !ok {
				break
			}
			errs := ms.Process()
			if len(ex.errs) > 0 || len(missing) > 0 {
				if run == 0 {
					invalid++
				}
				if len(errs) == 0 {
					fmt.Printf("GOVC-FAIL name=c06-grouping-errors schema %d is invalid for the model (%v %v) and accepted:\n%s\n", n, ex.errs, missing, all)
				}
				continue
			}
			if len(errs) > 0 {
				fmt.Printf("GOVC-FAIL name=c06-grouping-expansion schema %d is valid for the model, Process reports %v\n%s\n", n, errs[0], all)
				break
			}
			fails, cnt := gxCompareAll(ms, ex)
			nodes += cnt
			for _, f := range fails {
				fmt.Printf("GOVC-FAIL name=c06-grouping-expansion schema %d: %s\n%s\n", n, f, all)
			}
			if len(fails) > 0 {
				break
			}
		}
	}
	// fixed cases. (1) two uses of a grouping with five extensions, each use with one of its own:
	// the entries of the uses statements (and the trees kept by StoreUses) do not share the array
	// behind their extension lists. (2) a prefix means what the imports of the module it is written
	// in say: "uses x:g" is not resolved through the import of an included submodule.
	{
		evals++
		ms := NewModules()
		ms.ParseOptions.StoreUses = true
		src := `module p { namespace "urn:p"; prefix "p"; extension e { argument a; }
  grouping g { p:e "g1"; p:e "g2"; p:e "g3"; p:e "g4"; p:e "g5"; leaf l { type string; } }
  container one { uses g { p:e "u1"; } } container two { uses g { p:e "u2"; } } }`
		if err := ms.Parse(src, "p.yang"); err != nil {
			fmt.Printf("GOVC-FAIL name=c06-grouping-expansion fixed case does not parse: %v\n", err)
		} else if errs := ms.Process(); len(errs) > 0 {
			fmt.Printf("GOVC-FAIL name=c06-grouping-expansion fixed case: %v\n", errs)
		} else {
			mod := ToEntry(ms.Modules["p"])
			for i, c := range []string{"one", "two"} {
				want := fmt.Sprintf("g1 g2 g3 g4 g5 u%d", i+1)
				for what, e := range map[string]*Entry{"Uses[0].Grouping": mod.Dir[c].Uses[0].Grouping, "ToEntry(uses)": ToEntry(ms.Modules["p"].Container[i].Uses[0])} {
					var got []string
					for _, x := range e.Exts {
						got = append(got, x.Argument)
					}
					if strings.Join(got, " ") != want {
						fmt.Printf("GOVC-FAIL name=c06-grouping-expansion /p/%s: %s has the extensions %v, want [%s]\n", c, what, got, want)
					}
				}
			}
		}
		// (4, below) a submodule uses a grouping of the module it belongs to and of a sibling submodule
		evals++
		ms = NewModules()
		for n, src := range map[string]string{
			"m.yang":  `module m { yang-version 1.1; namespace "urn:m"; prefix m; include s; include t; grouping g { leaf x { type string; } } }`,
			"s.yang":  `submodule s { yang-version 1.1; belongs-to m { prefix m; } container c { uses g; uses m:tg; } }`,
			"t.yang":  `submodule t { yang-version 1.1; belongs-to m { prefix m; } grouping tg { leaf y { type string; } } }`,
		} {
			if err := ms.Parse(src, n); err != nil {
				fmt.Printf("GOVC-FAIL name=c06-grouping-expansion fixed case does not parse: %v\n", err)
			}
		}
		if errs := ms.Process(); len(errs) > 0 {
			fmt.Printf("GOVC-FAIL name=c06-grouping-expansion a submodule uses a grouping of its module and of a sibling submodule: %v\n", errs)
		} else if c := ToEntry(ms.Modules["m"]).Dir["c"]; c == nil || c.Dir["x"] == nil || c.Dir["y"] == nil {
			fmt.Printf("GOVC-FAIL name=c06-grouping-expansion the groupings of the module are not expanded in the submodule's container\n")
		}
		// (3) a definition is not a use: a grouping defined inside grouping k -- at any depth -- may
		// use k; k does not use itself, and a real cycle through the inner grouping is still an error
		evals++
		ms = NewModules()
		if err := ms.Parse(`module d { namespace "urn:d"; prefix d;
  grouping k { container c { leaf a { type string; } grouping inner { container viak { uses k; } } container plain { grouping inner { leaf b { type string; } } uses inner; } } }
  container top { uses k; } }`, "d.yang"); err != nil {
			fmt.Printf("GOVC-FAIL name=c06-grouping-expansion fixed case does not parse: %v\n", err)
		} else if errs := ms.Process(); len(errs) > 0 {
			fmt.Printf("GOVC-FAIL name=c06-grouping-expansion a grouping defined inside grouping k uses k, nothing uses the inner grouping: %v\n", errs)
		} else if e := ToEntry(ms.Modules["d"]).Dir["top"]; e == nil || e.Dir["c"] == nil || e.Dir["c"].Dir["plain"] == nil || e.Dir["c"].Dir["plain"].Dir["b"] == nil {
			fmt.Printf("GOVC-FAIL name=c06-grouping-expansion the use of k is not expanded\n")
		}
		evals++
		ms = NewModules()
		if err := ms.Parse(`module d { namespace "urn:d"; prefix d; grouping k { container c { grouping inner { uses k; } uses inner; } } container top { uses k; } }`, "d.yang"); err == nil {
			if errs := ms.Process(); len(errs) == 0 {
				fmt.Printf("GOVC-FAIL name=c06-grouping-errors k uses an inner grouping that uses k: accepted\n")
			}
		}
		evals++
		ms = NewModules()
		for n, s := range map[string]string{
			"m.yang": `module m { namespace "urn:m"; prefix m; include s; container c { uses x:g; } }`,
			"s.yang": `submodule s { belongs-to m { prefix m; } import q { prefix x; } }`,
			"q.yang": `module q { namespace "urn:q"; prefix q; grouping g { leaf from-q { type string; } } }`} {
			if err := ms.Parse(s, n); err != nil {
				fmt.Printf("GOVC-FAIL name=c06-grouping-errors fixed case does not parse: %v\n", err)
			}
		}
		if errs := ms.Process(); len(errs) == 0 {
			fmt.Printf("GOVC-FAIL name=c06-grouping-errors module m imports nothing under x, yet \"uses x:g\" is resolved through the import of its submodule\n")
		}
	}
	fmt.Printf("GOVC-BOUNDED name=c06-expansion-vs-model bound=%d_random_schemas_(<=3_modules,_submodule,_<=8_groupings_with_shadowing_and_nesting,_seed_%d;_%d_invalid)_x_2_load_orders evaluations=%d distinct=%d\n", schemas, seed, invalid, evals, nodes)
}
