package yang

// Bounded stand-in for the hyperproperty of C05 (no single-run contract can
// state it): for a corpus of module sets -- clean ones and ones with several
// errors -- the outcome of loading and processing (the exact error list, or
// else a complete rendering of every resolved tree) is compared across
// repeated runs (fresh map seeds) and across every load order of the sources.

import (
	"bytes"
	"fmt"
	"sort"
	"strings"
	"testing"
)

func govcRender(ms *Modules) string {
	var names []string
	for n := range ms.Modules {
		if !strings.Contains(n, "@") {
			names = append(names, n)
		}
	}
	sort.Strings(names)
	var buf bytes.Buffer
	var walk func(e *Entry, path string)
	walk = func(e *Entry, path string) {
		fmt.Fprintf(&buf, "%s kind=%v cfg=%v def=%v ns=%s", path, e.Kind, e.Config, e.DefaultValues(), e.Namespace().Name)
		if e.Type != nil {
			fmt.Fprintf(&buf, " type=%s/%v range=%v len=%v pat=%v", e.Type.Name, e.Type.Kind, e.Type.Range, e.Type.Length, e.Type.Pattern)
			if e.Type.Enum != nil {
				fmt.Fprintf(&buf, " enum=%v", e.Type.Enum.NameMap())
			}
			if e.Type.IdentityBase != nil {
				var vs []string
				for _, v := range e.Type.IdentityBase.Values {
					vs = append(vs, v.Name)
				}
				fmt.Fprintf(&buf, " idvalues=%v", vs)
			}
			for _, u := range e.Type.Type {
				fmt.Fprintf(&buf, " member=%s", u.Name)
			}
		}
		if e.ListAttr != nil {
			fmt.Fprintf(&buf, " min=%d max=%d", e.ListAttr.MinElements, e.ListAttr.MaxElements)
		}
		var exts []string
		for _, x := range e.Exts {
			exts = append(exts, x.Keyword+" "+x.Argument)
		}
		var extra []string
		for k, vs := range e.Extra {
			for _, v := range vs {
				if val, ok := v.(*Value); ok && val != nil {
					extra = append(extra, k+"="+val.Name)
				} else {
					extra = append(extra, fmt.Sprintf("%s=%T", k, v))
				}
			}
		}
		sort.Strings(extra)
		fmt.Fprintf(&buf, " exts=%v extra=%v augmented=%d\n", exts, extra, len(e.Augmented))
		var ks []string
		for k := range e.Dir {
			ks = append(ks, k)
		}
		sort.Strings(ks)
		for _, k := range ks {
			walk(e.Dir[k], path+"/"+k)
		}
		if e.RPC != nil {
			if e.RPC.Input != nil {
				walk(e.RPC.Input, path+"/input")
			}
			if e.RPC.Output != nil {
				walk(e.RPC.Output, path+"/output")
			}
		}
	}
	for _, n := range names {
		e := ToEntry(ms.Modules[n])
		walk(e, "/"+n)
		e.Print(&buf)
	}
	return buf.String()
}

func govcOutcome(srcs []string, order []int) string {
	ms := NewModules()
	for _, ix := range order {
		if err := ms.Parse(srcs[ix], fmt.Sprintf("src%d.yang", ix)); err != nil {
			return "parse error: " + err.Error()
		}
	}
	if errs := ms.Process(); len(errs) > 0 {
		var ss []string
		for _, e := range errs {
			ss = append(ss, e.Error())
		}
		return "errors:\n" + strings.Join(ss, "\n")
	}
	return govcRender(ms)
}

func TestGovcBoundedC05Determinism(t *testing.T) {
	base := `module m { namespace "urn:m"; prefix m; import x { prefix x; }
  typedef t1 { type string { pattern "a"; pattern "b"; } } typedef t2 { type t1 { pattern "c"; } }
  identity root; identity k1 { base root; } identity k2 { base k1; } identity same { base root; }
  grouping g { leaf gl { type t2; m:ext1 "1"; m:ext2 "2"; } list gll { key k; leaf k { type string; } } }
  extension ext1 { argument a; } extension ext2 { argument a; }
  container c { uses g { m:ext1 "onuse"; } leaf e { type enumeration { enum z; enum y { value 5; } enum x; } } leaf r { type int32 { range "1..5|9|20..30"; } } leaf i { type identityref { base root; } } }
  container d { uses g; leaf u { type union { type string; type int8; type x:xt; } } }
  rpc r { input { leaf i { type string; } } }
}`
	x := `module x { namespace "urn:x"; prefix x; import m { prefix m; } typedef xt { type uint8 { range "1..9"; } } identity same { base m:root; } identity k3 { base m:k2; }
  augment "/m:c" { leaf fromx { type xt; } } augment "/m:d/m:gll" { leaf deeper { type string; } } }`
	dev := `module dv { namespace "urn:dv"; prefix dv; import m { prefix m; } deviation "/m:c/m:gll" { deviate add { min-elements 2; } } deviation "/m:d/m:gl" { deviate replace { type int8; } } deviation "/m:c/m:r" { deviate not-supported; } }`
	bad1 := `module b1 { namespace "urn:b1"; prefix b1; import m { prefix m; } leaf q { type nosuch; } leaf q2 { type m:nosuch2; } augment "/m:nowhere" { leaf z { type string; } } container k { leaf a { type int8 { range "9..1"; } } leaf b { type string { length "x"; } } } }`
	bad2 := `module b2 { namespace "urn:b2"; prefix b2; import m { prefix m; } augment "/m:c" { leaf e { type string; } } augment "/m:d" { leaf gl { type string; } } uses nogroup; leaf w { type enumeration { enum a { value 1; } enum b { value 1; } } } }`
	// typedef rings, within a module and across two modules: every member is reported, whichever is met first
	ring1 := `module r1 { namespace "urn:r1"; prefix r1; import r2 { prefix r2; }
  typedef a { type b; } typedef b { type a; } typedef p { type q; } typedef q { type r; } typedef r { type p; }
  typedef cross { type r2:back; } leaf la { type a; } leaf lp { type q; } leaf lc { type cross; } }`
	ring2 := `module r2 { namespace "urn:r2"; prefix r2; import r1 { prefix r1; } typedef back { type r1:cross; } leaf lb { type back; } }`
	// two revisions of one module loaded side by side, each augmenting the same node with its own child
	tgt := `module tgt { namespace "urn:tgt"; prefix t; container box; }`
	rev20 := `module aug { namespace "urn:aug"; prefix a; import tgt { prefix t; } revision 2020-01-01; augment "/t:box" { leaf from-2020 { type string; } } }`
	rev21 := `module aug { namespace "urn:aug"; prefix a; import tgt { prefix t; } revision 2021-01-01; augment "/t:box" { leaf from-2021 { type string; } } }`
	rev22 := `module aug { namespace "urn:aug"; prefix a; import tgt { prefix t; } revision 2022-01-01; augment "/t:box" { leaf from-2022 { type string; } } }`
	// one grouping whose node carries lists with spare capacity (three if-features, five extension
	// statements), used from two modules that each add their own to the uses / the augment
	shared := `module sh { namespace "urn:sh"; prefix sh; feature f1; feature f2; feature f3; feature x; feature y;
  extension e { argument a; }
  grouping g { container gc { if-feature f1; if-feature f2; if-feature f3; sh:e "1"; sh:e "2"; sh:e "3"; sh:e "4"; sh:e "5"; leaf l { type string; } } }
  container host; }`
	user1 := `module u1 { namespace "urn:u1"; prefix u1; import sh { prefix sh; } container c1 { uses sh:g { if-feature sh:x; sh:e "from-u1"; } } augment "/sh:host" { if-feature sh:x; uses sh:g; } }`
	user2 := `module u2 { namespace "urn:u2"; prefix u2; import sh { prefix sh; } container c2 { uses sh:g { if-feature sh:y; sh:e "from-u2"; } } }`
	// augments that build on each other, written outermost-last in one module, with a second module
	// hanging one augment on the first and one on the last of the nodes so created: every round of the
	// retry loop applies something in each module and leaves something; all must be applied in the end
	chainBase := `module cb { namespace "urn:cb"; prefix b; container top { leaf id { type string; } } }`
	chainPlat := `module plat { namespace "urn:plat"; prefix p; import cb { prefix b; }
  augment "/b:top/p:slot/p:card/p:port" { leaf speed { type uint32; } }
  augment "/b:top/p:slot/p:card" { container port { leaf nr { type uint8; } } }
  augment "/b:top/p:slot" { container card { leaf model { type string; } } }
  augment "/b:top" { container slot { leaf nr { type uint8; } } } }`
	chainVendor := `module vendor { namespace "urn:vendor"; prefix v; import cb { prefix b; } import plat { prefix p; }
  augment "/b:top/p:slot" { leaf locator-led { type boolean; } }
  augment "/b:top/p:slot/p:card/p:port" { leaf lanes { type uint8; } } }`
	// two modules that bring a node of the same name to one target: which one is applied and
	// which is refused, and what the error says, is the same in every run and load order
	clashT := `module ct { namespace "urn:ct"; prefix ct; container c { leaf own { type string; } } }`
	clashA := `module ca { namespace "urn:ca"; prefix ca; import ct { prefix ct; } augment "/ct:c" { leaf x { type string; } leaf from-a { type string; } } }`
	clashB := `module cb2 { namespace "urn:cb2"; prefix cb2; import ct { prefix ct; } augment "/ct:c" { leaf x { type uint8; } leaf from-b { type string; } } }`
	sets := [][]string{{clashT, clashA, clashB}, {base, x}, {base, x, dev}, {base, x, bad1}, {base, x, bad2}, {base, x, bad1, bad2},
		{ring1, ring2}, {tgt, rev20, rev21}, {tgt, rev20, rev21, rev22}, {shared, user1, user2}, {chainBase, chainPlat, chainVendor}}
	evals, distinct := 0, 0
	for si, srcs := range sets {
		distinct++
		var first string
		for _, order := range govcAllPerms(len(srcs)) {
			for rep := 0; rep < 3; rep++ {
				evals++
				got := govcOutcome(srcs, order)
				if first == "" {
					first = got
				} else if got != first {
					a, b := strings.Split(first, "\n"), strings.Split(got, "\n")
					diff := ""
					for i := 0; i < len(a) && i < len(b); i++ {
						if a[i] != b[i] {
							diff = fmt.Sprintf("line %d: %q vs %q", i+1, a[i], b[i])
							break
						}
					}
					if diff == "" {
						diff = fmt.Sprintf("%d vs %d lines", len(a), len(b))
					}
					fmt.Printf("GOVC-FAIL name=c05-determinism set %d, load order %v, repetition %d: outcome differs from the first run: %s\n", si, order, rep, diff)
					goto next
				}
			}
		}
	next:
	}
	fmt.Printf("GOVC-BOUNDED name=c05-pipeline-determinism bound=%d_module_sets_x_all_load_orders_x_3_repetitions evaluations=%d distinct=%d\n", len(sets), evals, distinct)
}

func govcAllPerms(n int) [][]int {
	if n == 0 {
		return [][]int{{}}
	}
	var out [][]int
	for _, p := range govcAllPerms(n - 1) {
		for i := 0; i <= len(p); i++ {
			q := append(append(append([]int{}, p[:i]...), n-1), p[i:]...)
			out = append(out, q)
		}
	}
	return out
}
