package yang

// Fixed case (once an open finding, now repaired): a type statement written in
// a submodule sees the top-level typedefs of the module the submodule belongs
// to and those of a sibling submodule.

import (
	"fmt"
	"testing"
)

func TestGovcBoundedC09SubmoduleScope(t *testing.T) {
	ms := NewModules()
	for i, s := range []string{
		`module main { yang-version 1.1; namespace "urn:main"; prefix m; include part; include other; typedef top { type int8; } }`,
		`submodule part { yang-version 1.1; belongs-to main { prefix m; } leaf l { type top; } leaf l2 { type m:top; } leaf l3 { type sib; } }`,
		`submodule other { yang-version 1.1; belongs-to main { prefix m; } typedef sib { type string; } }`,
	} {
		if err := ms.Parse(s, fmt.Sprintf("sc%d.yang", i)); err != nil {
			fmt.Printf("GOVC-FAIL name=c09-type-resolution fixed case does not parse: %v\n", err)
		}
	}
	if errs := ms.Process(); len(errs) > 0 {
		fmt.Printf("GOVC-FAIL name=c09-type-resolution a type statement in a submodule names a top-level typedef of its module (and of a sibling submodule): %v\n", errs)
	}
	fmt.Printf("GOVC-BOUNDED name=c09-submodule-scope bound=1_fixed_set evaluations=1 distinct=1\n")
}
