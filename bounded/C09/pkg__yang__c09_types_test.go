package yang

// Bounded stand-in for the whole-chain clauses of C09: random schemas with
// typedefs at module, submodule, container, list, grouping, rpc input/output
// and notification scope that shadow one another, are chained to random depth
// and are referenced across imports under arbitrary prefixes. The generator
// keeps its own model of every definition and computes, without looking at the
// library's data structures, what each leaf's type must resolve to: base kind,
// units and default (nearest definition wins), accumulated patterns, the
// nearest range, enum / bit names, fraction digits, union member kinds. Schemas
// in which the random names form a cycle must be rejected; every accepted
// schema is processed twice and both runs must agree.

import (
	"fmt"
	"math/rand"
	"os"
	"sort"
	"strconv"
	"strings"
	"testing"
)

type govcTD struct {
	name    string
	scope   *govcScope
	refPfx  string // prefix written in the type reference ("" = none)
	refName string // name written in the type reference (builtin or typedef name)
	baseTD  *govcTD
	root    string // builtin kind at the root of the chain (set after resolution)
	depth   int
	units   string
	def     string
	pats    []string
	rng     string
	enums   []string
	bits    []string
	fd      int
	union   []string
	state   int // cycle detection
	bad     bool
}

type govcScope struct {
	kind   string // top container list notification rpcin rpcout grouping
	name   string
	parent *govcScope
	mod    *govcMod
	tds    []*govcTD
	kids   []*govcScope
	leaves []*govcTD // a leaf is modelled as an anonymous typedef use: name = leaf name
	path   []string  // where the scope's content shows up in the entry tree of the module
}

type govcMod struct {
	name, prefix string
	belongs      *govcMod
	subs         []*govcMod
	imports      []*govcMod
	impPfx       []string
	top          *govcScope
}

var govcBuiltins = []string{"string", "int32", "enumeration", "bits", "decimal64", "union"}

func (m *govcMod) owner() *govcMod {
	if m.belongs != nil {
		return m.belongs
	}
	return m
}

// lookup is the model's reading of the binding rule of the property.
func govcLookup(from *govcScope, pfx, name string) (*govcTD, bool) {
	for _, b := range govcBuiltins {
		if pfx == "" && name == b {
			return nil, true
		}
	}
	m := from.mod
	if pfx == "" || pfx == m.prefix {
		for s := from; s != nil; s = s.parent {
			for _, td := range s.tds {
				if td.name == name {
					return td, true
				}
			}
		}
		for _, sub := range m.subs {
			for _, td := range sub.top.tds {
				if td.name == name {
					return td, true
				}
			}
		}
		// from a submodule: then the top level of the module it belongs to, then that
		// module's (other) submodules (RFC 7950 5.1)
		if m.belongs != nil {
			for _, td := range m.belongs.top.tds {
				if td.name == name {
					return td, true
				}
			}
			for _, sub := range m.belongs.subs {
				for _, td := range sub.top.tds {
					if td.name == name {
						return td, true
					}
				}
			}
		}
		return nil, false
	}
	for i, im := range m.imports {
		if m.impPfx[i] == pfx {
			for _, td := range im.top.tds {
				if td.name == name {
					return td, true
				}
			}
			for _, sub := range im.subs {
				for _, td := range sub.top.tds {
					if td.name == name {
						return td, true
					}
				}
			}
			return nil, false
		}
	}
	return nil, false
}

// resolve sets baseTD/root/depth; returns false on an unknown name or a cycle.
func (td *govcTD) resolve() bool {
	switch td.state {
	case 1:
		return false // cycle
	case 2:
		return !td.bad
	}
	td.state = 1
	b, ok := govcLookup(td.scope, td.refPfx, td.refName)
	switch {
	case !ok:
		td.bad = true
	case b == nil:
		td.root, td.depth = td.refName, 0
	case b == td:
		td.bad = true
	default:
		if !b.resolve() {
			td.bad = true
		} else {
			td.baseTD, td.root, td.depth = b, b.root, b.depth+1
		}
	}
	td.state = 2
	return !td.bad
}

type govcExpect struct {
	kind, units, def, rng string
	hasDef                bool
	pats, enums, bits     []string
	fd                    int
	union                 []string
}

func (td *govcTD) expect() govcExpect {
	var chain []*govcTD
	for x := td; x != nil; x = x.baseTD {
		chain = append(chain, x)
	}
	ex := govcExpect{kind: td.root}
	for i := len(chain) - 1; i >= 0; i-- {
		x := chain[i]
		if x.units != "" {
			ex.units = x.units
		}
		if x.def != "" {
			ex.def, ex.hasDef = x.def, true
		}
		for _, p := range x.pats {
			dup := false
			for _, q := range ex.pats {
				dup = dup || p == q
			}
			if !dup {
				ex.pats = append(ex.pats, p)
			}
		}
		if x.rng != "" {
			ex.rng = x.rng
		}
		if len(x.enums) > 0 {
			ex.enums = x.enums
		}
		if len(x.bits) > 0 {
			ex.bits = x.bits
		}
		if x.fd != 0 {
			ex.fd = x.fd
		}
		if len(x.union) > 0 {
			ex.union = x.union
		}
	}
	return ex
}

// decorate gives a resolved definition restrictions that are valid at its
// depth in the chain (ranges shrink with depth; enum, bit, fraction-digits and
// union members are given where the built-in is named).
func (td *govcTD) decorate(rng *rand.Rand, isLeaf bool) {
	pats := []string{"[a-z]*", "[a-z0-9]*", ".*", "[a-x]*", "[a-z]{0,9}"}
	direct := td.baseTD == nil
	switch td.root {
	case "string":
		for n := rng.Intn(3); n > 0; n-- {
			td.pats = append(td.pats, pats[rng.Intn(len(pats))])
		}
		if !isLeaf && rng.Intn(3) == 0 {
			td.def = []string{"x", "abc", "q"}[rng.Intn(3)]
		}
	case "int32":
		if rng.Intn(2) == 0 {
			d := td.depth + 1
			if isLeaf {
				d++
			}
			td.rng = fmt.Sprintf("%d..%d", d, 100-d)
		}
		if !isLeaf && rng.Intn(3) == 0 {
			td.def = strconv.Itoa(40 + rng.Intn(20))
		}
	case "enumeration":
		if direct {
			all := []string{"red", "green", "blue", "black"}
			rng.Shuffle(len(all), func(a, b int) { all[a], all[b] = all[b], all[a] })
			td.enums = append([]string{}, all[:1+rng.Intn(3)]...)
		}
	case "bits":
		if direct {
			all := []string{"b0", "b1", "b2", "b3"}
			rng.Shuffle(len(all), func(a, b int) { all[a], all[b] = all[b], all[a] })
			td.bits = append([]string{}, all[:1+rng.Intn(3)]...)
		}
	case "decimal64":
		if direct {
			td.fd = 1 + rng.Intn(6)
		}
	case "union":
		if direct {
			all := []string{"string", "int8", "boolean", "uint16"}
			rng.Shuffle(len(all), func(a, b int) { all[a], all[b] = all[b], all[a] })
			td.union = append([]string{}, all[:2+rng.Intn(2)]...)
		}
	}
	if !isLeaf && rng.Intn(3) == 0 {
		td.units = []string{"m", "s", "kg"}[rng.Intn(3)]
	}
}

func (td *govcTD) typeText() string {
	ref := td.refName
	if td.refPfx != "" {
		ref = td.refPfx + ":" + ref
	}
	var b strings.Builder
	for _, p := range td.pats {
		fmt.Fprintf(&b, " pattern \"%s\";", p)
	}
	if td.rng != "" {
		fmt.Fprintf(&b, " range \"%s\";", td.rng)
	}
	for _, e := range td.enums {
		fmt.Fprintf(&b, " enum %s;", e)
	}
	for i, e := range td.bits {
		fmt.Fprintf(&b, " bit %s { position %d; }", e, i)
	}
	if td.fd != 0 {
		fmt.Fprintf(&b, " fraction-digits %d;", td.fd)
	}
	for _, u := range td.union {
		fmt.Fprintf(&b, " type %s;", u)
	}
	if b.Len() == 0 {
		return "type " + ref + ";"
	}
	return "type " + ref + " {" + b.String() + " }"
}

func (s *govcScope) emit(sb *strings.Builder, ind string) {
	for _, td := range s.tds {
		fmt.Fprintf(sb, "%stypedef %s { %s", ind, td.name, td.typeText())
		if td.units != "" {
			fmt.Fprintf(sb, " units %s;", td.units)
		}
		if td.def != "" {
			fmt.Fprintf(sb, " default \"%s\";", td.def)
		}
		sb.WriteString(" }\n")
	}
	for _, lf := range s.leaves {
		fmt.Fprintf(sb, "%sleaf %s { %s }\n", ind, lf.name, lf.typeText())
	}
	for _, k := range s.kids {
		switch k.kind {
		case "container", "notification", "grouping":
			fmt.Fprintf(sb, "%s%s %s {\n", ind, k.kind, k.name)
			k.emit(sb, ind+"  ")
			fmt.Fprintf(sb, "%s}\n", ind)
			if k.kind == "grouping" {
				fmt.Fprintf(sb, "%scontainer use-%s { uses %s; }\n", ind, k.name, k.name)
			}
		case "list":
			fmt.Fprintf(sb, "%slist %s { key k; leaf k { type string; }\n", ind, k.name)
			k.emit(sb, ind+"  ")
			fmt.Fprintf(sb, "%s}\n", ind)
		case "rpc":
			fmt.Fprintf(sb, "%srpc %s {\n", ind, k.name)
			for _, io := range k.kids {
				fmt.Fprintf(sb, "%s  %s {\n", ind, io.name)
				io.emit(sb, ind+"    ")
				fmt.Fprintf(sb, "%s  }\n", ind)
			}
			fmt.Fprintf(sb, "%s}\n", ind)
		}
	}
}

func (m *govcMod) text() string {
	var sb strings.Builder
	if m.belongs != nil {
		fmt.Fprintf(&sb, "submodule %s { belongs-to %s { prefix %s; }\n", m.name, m.belongs.name, m.prefix)
	} else {
		fmt.Fprintf(&sb, "module %s { namespace \"urn:%s\"; prefix %s;\n", m.name, m.name, m.prefix)
	}
	for i, im := range m.imports {
		fmt.Fprintf(&sb, "  import %s { prefix %s; }\n", im.name, m.impPfx[i])
	}
	for _, s := range m.subs {
		fmt.Fprintf(&sb, "  include %s;\n", s.name)
	}
	m.top.emit(&sb, "  ")
	sb.WriteString("}\n")
	return sb.String()
}

func govcAllScopes(s *govcScope, out *[]*govcScope) {
	if s.kind != "rpc" {
		*out = append(*out, s)
	}
	for _, k := range s.kids {
		govcAllScopes(k, out)
	}
}

func govcFindEntry(root *Entry, path []string) *Entry {
	e := root
	for _, p := range path {
		if e == nil {
			return nil
		}
		switch {
		case p == "input" && e.RPC != nil:
			e = e.RPC.Input
		case p == "output" && e.RPC != nil:
			e = e.RPC.Output
		default:
			e = e.Dir[p]
		}
	}
	return e
}

func govcSorted(s []string) string {
	c := append([]string{}, s...)
	sort.Strings(c)
	return strings.Join(c, ",")
}

func TestGovcBoundedC09Types(t *testing.T) {
	seed := int64(1)
	if s := os.Getenv("VERIF_SEED"); s != "" {
		if v, err := strconv.ParseInt(s, 10, 64); err == nil {
			seed = v
		}
	}
	schemas := 150
	if os.Getenv("VERIF_TIER") == "thorough" {
		schemas = 2500
	}
	rng := rand.New(rand.NewSource(seed))
	evals, leavesChecked, rejected := 0, 0, 0
	pool := []string{"p", "q", "r", "s"}
	names := []string{"t", "u", "v"}
	for g := 0; g < schemas; g++ {
		// modules
		nm := 1 + rng.Intn(3)
		var mods, all []*govcMod
		for i := 0; i < nm; i++ {
			m := &govcMod{name: fmt.Sprintf("m%d", i), prefix: []string{"p", "q", "own"}[rng.Intn(3)]}
			mods = append(mods, m)
			all = append(all, m)
			if rng.Intn(3) == 0 {
				s := &govcMod{name: fmt.Sprintf("s%d", i), prefix: m.prefix, belongs: m}
				m.subs = append(m.subs, s)
				all = append(all, s)
			}
		}
		for _, m := range all {
			pp := append([]string{}, pool...)
			rng.Shuffle(len(pp), func(a, b int) { pp[a], pp[b] = pp[b], pp[a] })
			k := 0
			for _, o := range mods {
				if o == m.owner() {
					continue
				}
				for pp[k] == m.prefix {
					k++
				}
				m.imports = append(m.imports, o)
				m.impPfx = append(m.impPfx, pp[k])
				k++
			}
		}
		// scopes
		for _, m := range all {
			m.top = &govcScope{kind: "top", mod: m}
			ids := 0
			var grow func(s *govcScope, depth int)
			grow = func(s *govcScope, depth int) {
				for n := rng.Intn(3); n > 0 && depth < 3; n-- {
					ids++
					kinds := []string{"container", "list", "grouping"}
					if depth == 0 {
						kinds = append(kinds, "notification", "rpc")
					}
					kd := kinds[rng.Intn(len(kinds))]
					nmz := fmt.Sprintf("%s%s%d", m.name, kd[:1], ids)
					k := &govcScope{kind: kd, name: nmz, parent: s, mod: m}
					switch kd {
					case "grouping":
						k.path = append(append([]string{}, s.path...), "use-"+nmz)
					case "rpc":
						k.path = append(append([]string{}, s.path...), nmz)
						for _, io := range []string{"input", "output"} {
							c := &govcScope{kind: "rpc" + io[:2], name: io, parent: s, mod: m, path: append(append([]string{}, k.path...), io)}
							k.kids = append(k.kids, c)
							grow(c, depth+1)
						}
					default:
						k.path = append(append([]string{}, s.path...), nmz)
					}
					s.kids = append(s.kids, k)
					if kd != "rpc" {
						grow(k, depth+1)
					}
				}
			}
			grow(m.top, 0)
		}
		var scopes []*govcScope
		for _, m := range all {
			govcAllScopes(m.top, &scopes)
		}
		// definitions first (name and scope), references afterwards, chosen mostly
		// among the names that are visible from the referencing statement
		var tds, leaves []*govcTD
		for n := 3 + rng.Intn(8); n > 0; n-- {
			s := scopes[rng.Intn(len(scopes))]
			nmz := names[rng.Intn(len(names))]
			dup := false
			for _, x := range s.tds {
				dup = dup || x.name == nmz
			}
			if dup {
				continue
			}
			td := &govcTD{name: nmz, scope: s}
			s.tds = append(s.tds, td)
			tds = append(tds, td)
		}
		order := map[*govcTD]int{}
		for i, td := range tds {
			order[td] = i
		}
		mkRef := func(self *govcTD, s *govcScope) (string, string) {
			if rng.Intn(3) == 0 {
				return "", govcBuiltins[rng.Intn(len(govcBuiltins))]
			}
			if rng.Intn(12) == 0 { // now and then a name that may not exist
				return "", names[rng.Intn(len(names))]
			}
			type cand struct{ pfx, name string }
			var cs []cand
			pfxs := append([]string{"", s.mod.prefix}, s.mod.impPfx...)
			for _, pf := range pfxs {
				for _, nmz := range names {
					if b, ok := govcLookup(s, pf, nmz); ok && b != nil && b != self {
						// mostly refer to definitions made earlier: fewer accidental cycles
						if self == nil || order[b] < order[self] || rng.Intn(8) == 0 {
							cs = append(cs, cand{pf, nmz})
						}
					}
				}
			}
			if len(cs) == 0 {
				return "", govcBuiltins[rng.Intn(len(govcBuiltins))]
			}
			c := cs[rng.Intn(len(cs))]
			return c.pfx, c.name
		}
		for _, td := range tds {
			td.refPfx, td.refName = mkRef(td, td.scope)
		}
		lid := 0
		for n := 3 + rng.Intn(8); n > 0; n-- {
			s := scopes[rng.Intn(len(scopes))]
			lid++
			lf := &govcTD{name: fmt.Sprintf("l%d", lid), scope: s}
			lf.refPfx, lf.refName = mkRef(nil, s)
			s.leaves = append(s.leaves, lf)
			leaves = append(leaves, lf)
		}
		valid := true
		for _, td := range append(append([]*govcTD{}, tds...), leaves...) {
			if !td.resolve() {
				valid = false
			}
		}
		if valid {
			// decorate typedefs from the roots of the chains outwards
			sort.SliceStable(tds, func(a, b int) bool { return tds[a].depth < tds[b].depth })
			for _, td := range tds {
				td.decorate(rng, false)
			}
			for _, lf := range leaves {
				lf.decorate(rng, true)
			}
		} else {
			// an invalid schema still needs well-formed direct uses of the built-ins
			for _, td := range append(append([]*govcTD{}, tds...), leaves...) {
				if !td.bad && td.baseTD == nil && td.state == 2 {
					td.decorate(rng, true)
				}
			}
		}
		var srcs []string
		for _, m := range all {
			srcs = append(srcs, m.text())
		}
		var first string
		for run := 0; run < 2; run++ {
			evals++
			ms := NewModules()
			okp := true
			for _, ix := range rng.Perm(len(srcs)) {
				if err := ms.Parse(srcs[ix], fmt.Sprintf("f%d.yang", ix)); err != nil {
					fmt.Printf("GOVC-FAIL name=c09-type-resolution schema %d does not parse: %v\n%s\n", g, err, srcs[ix])
					okp = false
				}
			}
			if !okp {
				break
			}
			errs := ms.Process()
			if !valid {
				if len(errs) == 0 {
					fmt.Printf("GOVC-FAIL name=c09-type-errors schema %d has an unknown or cyclic type reference and is accepted:\n%s\n", g, strings.Join(srcs, ""))
				}
				if run == 0 {
					rejected++
				}
				continue
			}
			if len(errs) > 0 {
				fmt.Printf("GOVC-FAIL name=c09-type-resolution schema %d (every reference resolves in the model): Process reports %v\n%s\n", g, errs[0], strings.Join(srcs, ""))
				break
			}
			var lines []string
			for _, lf := range leaves {
				root := ToEntry(ms.Modules[lf.scope.mod.owner().name])
				e := govcFindEntry(root, append(append([]string{}, lf.scope.path...), lf.name))
				if e == nil || e.Type == nil {
					fmt.Printf("GOVC-FAIL name=c09-type-resolution schema %d: leaf %v/%s not found or without type\n%s\n", g, lf.scope.path, lf.name, strings.Join(srcs, ""))
					continue
				}
				leavesChecked++
				y := e.Type
				ex := lf.expect()
				var got govcExpect
				got.kind = TypeKindToName[y.Kind]
				got.units, got.def, got.hasDef, got.fd = y.Units, y.Default, y.HasDefault, y.FractionDigits
				got.pats = y.Pattern
				if ex.rng != "" {
					got.rng = y.Range.String()
				}
				if y.Enum != nil {
					got.enums = y.Enum.Names()
				}
				if y.Bit != nil {
					got.bits = y.Bit.Names()
				}
				for _, u := range y.Type {
					got.union = append(got.union, TypeKindToName[u.Kind])
				}
				gs := fmt.Sprintf("kind=%s units=%s default=%q/%v patterns=%v range=%s enums=%s bits=%s fd=%d union=%v", got.kind, got.units, got.def, got.hasDef, got.pats, got.rng, govcSorted(got.enums), govcSorted(got.bits), got.fd, got.union)
				es := fmt.Sprintf("kind=%s units=%s default=%q/%v patterns=%v range=%s enums=%s bits=%s fd=%d union=%v", ex.kind, ex.units, ex.def, ex.hasDef, ex.pats, ex.rng, govcSorted(ex.enums), govcSorted(ex.bits), ex.fd, ex.union)
				if gs != es {
					fmt.Printf("GOVC-FAIL name=c09-type-resolution schema %d leaf %v/%s (type %s:%s):\n  resolved: %s\n  expected: %s\n%s\n", g, lf.scope.path, lf.name, lf.refPfx, lf.refName, gs, es, strings.Join(srcs, ""))
				}
				lines = append(lines, gs)
			}
			cur := strings.Join(lines, "\n")
			if run == 0 {
				first = cur
			} else if cur != first {
				fmt.Printf("GOVC-FAIL name=c09-type-resolution schema %d: a second load and process of the same texts resolves differently\n", g)
			}
		}
	}
	// fixed cases: what random schemas rarely hit
	{
		evals++
		ms := NewModules()
		src := `module m { namespace "urn:m"; prefix m;
  typedef t { type string { pattern "a"; pattern "b"; pattern "c"; } }
  leaf x { type t { pattern "X"; } } leaf y { type t { pattern "Y"; } } leaf z { type t; }
  typedef c1 { type string { pattern "p1"; } } typedef c2 { type c1 { pattern "p2"; } } typedef c3 { type c2 { pattern "p3"; } }
  leaf cx { type c3 { pattern "X"; } } leaf cy { type c3 { pattern "Y"; } } leaf cz { type c3; }
  typedef d1 { type string { pattern "q1"; pattern "q2"; } } typedef d2 { type d1 { pattern "q3"; pattern "q4"; pattern "q5"; } }
  leaf dx { type d2 { pattern "X"; } } leaf dy { type d2 { pattern "Y"; pattern "Z"; } } leaf dz { type d2; }
  typedef un { type union { type string; type int8; type int16; } }
  leaf u1 { type union { type un; type boolean; } } leaf u2 { type union { type un; type uint8; } }
  leaf ub { type union { type bits { bit a; } type bits { bit b; } type bits { bit a; } } }
  leaf ue { type union { type enumeration { enum a; } type enumeration { enum b; } } }
}`
		if err := ms.Parse(src, "fixed.yang"); err != nil {
			fmt.Printf("GOVC-FAIL name=c09-type-resolution fixed cases do not parse: %v\n", err)
		} else if errs := ms.Process(); len(errs) > 0 {
			fmt.Printf("GOVC-FAIL name=c09-type-resolution fixed cases: %v\n", errs)
		} else {
			e := ToEntry(ms.Modules["m"])
			pat := func(n string) string { return strings.Join(e.Dir[n].Type.Pattern, " ") }
			if pat("x") != "a b c X" || pat("y") != "a b c Y" || pat("z") != "a b c" {
				fmt.Printf("GOVC-FAIL name=c09-type-resolution patterns of three leaves of one typedef: x=[%s] y=[%s] z=[%s], expected [a b c X] [a b c Y] [a b c]\n", pat("x"), pat("y"), pat("z"))
			}
			// the same over chains of typedefs that add patterns level by level (lists of length 3 and 5: spare capacity)
			if got := pat("cx") + " / " + pat("cy") + " / " + pat("cz"); got != "p1 p2 p3 X / p1 p2 p3 Y / p1 p2 p3" {
				fmt.Printf("GOVC-FAIL name=c09-type-resolution patterns over a chain of three typedefs: cx / cy / cz = %s\n", got)
			}
			if got := pat("dx") + " / " + pat("dy") + " / " + pat("dz"); got != "q1 q2 q3 q4 q5 X / q1 q2 q3 q4 q5 Y Z / q1 q2 q3 q4 q5" {
				fmt.Printf("GOVC-FAIL name=c09-type-resolution patterns over a chain of two typedefs: dx / dy / dz = %s\n", got)
			}
			if n := len(e.Dir["ub"].Type.Type); n != 2 {
				fmt.Printf("GOVC-FAIL name=c09-type-resolution union of bits{a}, bits{b}, bits{a} has %d members, expected 2 (the third repeats the first)\n", n)
			}
			if n := len(e.Dir["ue"].Type.Type); n != 2 {
				fmt.Printf("GOVC-FAIL name=c09-type-resolution union of enumeration{a}, enumeration{b} has %d members\n", n)
			}
		}
	}
	fmt.Printf("GOVC-BOUNDED name=c09-types-vs-model bound=%d_random_schemas_(<=3_modules,_submodules,_nested_scopes,_shadowing,_chains,_seed_%d;_%d_rejected_as_cyclic_or_unknown)_x_2_runs evaluations=%d distinct=%d\n", schemas, seed, rejected, evals, leavesChecked)
}
