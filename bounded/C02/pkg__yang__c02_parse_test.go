package yang

// Bounded stand-in for the content clauses of C02: statement forests are
// generated as DATA (keyword, optional argument value, children), then written
// out as YANG text by a writer that chooses, per argument, one of the RFC 7950
// 6.1.3 spellings of that value -- unquoted, single-quoted, double-quoted with
// escapes, double-quoted over several lines with continuation indentation, a
// concatenation of quoted pieces -- and fills the room between tokens with
// blanks, tabs, line breaks, CR LF and comments. Parsing the text must give
// back exactly the forest it was written from. Texts damaged in one place
// (a missing ";" or brace, an unterminated string, an escape that does not
// exist) must be rejected with no statements and a non-empty error; the same
// unknown escape inside the argument of a pattern statement is kept verbatim.
// The four constructs the property leaves open are not generated.

import (
	"fmt"
	"math/rand"
	"os"
	"strconv"
	"strings"
	"testing"
)

type govcNode struct {
	kw     string
	hasArg bool
	arg    string
	kids   []*govcNode
}

type govcTW struct {
	sb        strings.Builder
	rng       *rand.Rand
	tcol      int // tab-expanded column (0-based) of the next character on the current line
	tabOnLine bool
}

func (w *govcTW) put(s string) {
	for _, r := range s {
		w.sb.WriteRune(r)
		switch r {
		case '\n':
			w.tcol, w.tabOnLine = 0, false
		case '\t':
			w.tcol, w.tabOnLine = (w.tcol+8)&^7, true
		default:
			w.tcol++
		}
	}
}

var govcGaps = []string{" ", "  ", "\t", "\n", "\r\n", "\n  ", " // c é\n", " /* c */ ", "/* two\n lines ü */", "\n\n\t", " /**/ ", "/*\t*/", " /* a\tb */", "/* é\t\tü */ ", "/* x\n\ty\t*/", " // t\tt\n"}

func (w *govcTW) gap(must bool) {
	n := w.rng.Intn(3)
	if must {
		w.put([]string{" ", "\n", "\t", "\r\n"}[w.rng.Intn(4)])
	}
	for ; n > 0; n-- {
		w.put(govcGaps[w.rng.Intn(len(govcGaps))])
	}
}

func govcUnquotable(a string) bool {
	if a == "" || a == "+" || strings.HasPrefix(a, "//") || strings.HasPrefix(a, "/*") || strings.Contains(a, "//") || strings.Contains(a, "/*") || strings.Contains(a, "*/") {
		return false
	}
	return !strings.ContainsAny(a, " \t\r\n;{}\"'")
}

// dq writes value a as one double-quoted string.
func (w *govcTW) dq(a string, multiline bool) {
	w.put("\"")
	indent := w.tcol // column of the first character after the quote
	lines := strings.Split(a, "\n")
	for i, ln := range lines {
		if i > 0 {
			if multiline {
				w.put("\n")
				// continuation lines: any indentation up to the strip column is dropped
				pad := indent
				if w.rng.Intn(3) == 0 && !strings.HasPrefix(ln, " ") && !strings.HasPrefix(ln, "\t") && ln != "" {
					pad = w.rng.Intn(indent + 1) // less indentation than the first line: all of it is dropped
				}
				w.put(strings.Repeat(" ", pad))
			} else {
				w.put("\\n")
			}
		}
		for _, r := range ln {
			switch r {
			case '"':
				w.put("\\\"")
			case '\\':
				w.put("\\\\")
			case '\t':
				w.put("\\t")
			default:
				w.put(string(r))
			}
		}
	}
	w.put("\"")
}

func govcDQMultilineOK(a string) bool {
	// no blanks before a line break (they would be trimmed), no tab (written as an escape, which
	// must not stand right before a literal line break)
	for _, ln := range strings.Split(a, "\n") {
		if strings.HasSuffix(ln, " ") || strings.HasSuffix(ln, "\t") {
			return false
		}
	}
	return !strings.Contains(a, "\r")
}

func (w *govcTW) quoted(a string) {
	canSingle := !strings.Contains(a, "'")
	multiOK := govcDQMultilineOK(a) // (tabs before the opening quote on its line count to the next multiple of eight, as in the lexer)
	k := w.rng.Intn(3)
	if strings.Contains(a, "\r") {
		k = 0
	}
	switch {
	case k == 0 && canSingle:
		w.put("'" + a + "'")
	case k == 1 && multiOK:
		w.dq(a, true)
	default:
		if strings.Contains(a, "\r") {
			w.put("'" + a + "'") // (a value with a carriage return never has a single quote, see govcRandArg)
		} else {
			w.dq(a, false)
		}
	}
}

func (w *govcTW) argument(a string) {
	if govcUnquotable(a) && w.rng.Intn(2) == 0 {
		w.put(a)
		return
	}
	// sometimes as a concatenation of pieces
	if len(a) >= 2 && w.rng.Intn(3) == 0 {
		rs := []rune(a)
		cut := 1 + w.rng.Intn(len(rs)-1)
		w.quoted(string(rs[:cut]))
		w.gap(false)
		w.put("+")
		// a comment directly behind the + would make "+/*" one unquoted token (a construct the property leaves open)
		if w.rng.Intn(2) == 0 {
			w.gap(true)
		}
		w.quoted(string(rs[cut:]))
		return
	}
	w.quoted(a)
}

func (w *govcTW) node(n *govcNode) {
	w.gap(false)
	w.put(n.kw)
	if n.hasArg {
		w.gap(true)
		w.argument(n.arg)
	}
	w.gap(!n.hasArg || govcUnquotable(n.arg))
	if len(n.kids) == 0 && w.rng.Intn(4) != 0 {
		w.put(";")
		return
	}
	w.put("{")
	for _, k := range n.kids {
		w.node(k)
	}
	w.gap(false)
	w.put("}")
}

var govcKWs = []string{"container", "leaf", "description", "x", "ünï", "a-b.c", "p:ext", "type", "k9", "must"}
var govcPieces = []string{"he said \"\nhi", "path c:\\\nnext", "a \" \\\nb", "q \"\"\n\"", "a", "b c", "name1", "", " lead", "two\nlines", "x\n\n  y", "tab\there", "quo\"te", "sin'gle", "back\\slash", "é ü", "a;b{c}d", "//not-a-comment", "/* nor this */", "semi;", "+", "1+2", "trail \nnext", "\r\n", "plus + plus", "  ", "dbl\\\\bs", "\\n-not-a-line-break", "\\", "\n\" q", "\n\\ b", "\n\t z"}

func govcRandArg(rng *rand.Rand) string {
	a := govcPieces[rng.Intn(len(govcPieces))]
	for n := rng.Intn(3); n > 0; n-- {
		a += govcPieces[rng.Intn(len(govcPieces))]
	}
	// a carriage return can only be written inside single quotes (CR LF inside a double-quoted
	// string is one of the constructs the property leaves open)
	if strings.Contains(a, "'") {
		a = strings.ReplaceAll(a, "\r", "")
	}
	return a
}

func govcRandNode(rng *rand.Rand, depth int) *govcNode {
	n := &govcNode{kw: govcKWs[rng.Intn(len(govcKWs))]}
	if rng.Intn(4) != 0 {
		n.hasArg, n.arg = true, govcRandArg(rng)
	}
	if depth < 3 && rng.Intn(3) == 0 {
		for k := rng.Intn(4); k > 0; k-- {
			n.kids = append(n.kids, govcRandNode(rng, depth+1))
		}
	}
	return n
}

func govcSame(s *Statement, n *govcNode, path string) string {
	if s.Keyword != n.kw {
		return fmt.Sprintf("%s: keyword %q, written %q", path, s.Keyword, n.kw)
	}
	if s.HasArgument != n.hasArg || s.Argument != n.arg {
		return fmt.Sprintf("%s %s: argument (%v) %q, written (%v) %q", path, n.kw, s.HasArgument, s.Argument, n.hasArg, n.arg)
	}
	subs := s.SubStatements()
	if len(subs) != len(n.kids) {
		return fmt.Sprintf("%s %s: %d substatements, written %d", path, n.kw, len(subs), len(n.kids))
	}
	for i := range subs {
		if d := govcSame(subs[i], n.kids[i], fmt.Sprintf("%s/%s[%d]", path, n.kw, i)); d != "" {
			return d
		}
	}
	return ""
}

func TestGovcBoundedC02Parse(t *testing.T) {
	seed := int64(1)
	if s := os.Getenv("VERIF_SEED"); s != "" {
		if v, err := strconv.ParseInt(s, 10, 64); err == nil {
			seed = v
		}
	}
	texts := 600
	if os.Getenv("VERIF_TIER") == "thorough" {
		texts = 10000
	}
	rng := rand.New(rand.NewSource(seed))
	evals, stmts := 0, 0
	count := func(n *govcNode) int {
		c := 0
		var f func(*govcNode)
		f = func(x *govcNode) {
			c++
			for _, k := range x.kids {
				f(k)
			}
		}
		f(n)
		return c
	}
	for i := 0; i < texts; i++ {
		var forest []*govcNode
		for n := 1 + rng.Intn(3); n > 0; n-- {
			forest = append(forest, govcRandNode(rng, 0))
		}
		w := &govcTW{rng: rng}
		for _, n := range forest {
			w.node(n)
			stmts += count(n)
		}
		w.gap(false)
		text := w.sb.String()
		evals++
		ss, err := Parse(text, "t.yang")
		if err != nil {
			fmt.Printf("GOVC-FAIL name=c02-forest a well-formed text is rejected: %v\n%q\n", err, text)
			continue
		}
		if len(ss) != len(forest) {
			fmt.Printf("GOVC-FAIL name=c02-forest %d top-level statements, written %d: %q\n", len(ss), len(forest), text)
			continue
		}
		for k := range ss {
			if d := govcSame(ss[k], forest[k], ""); d != "" {
				fmt.Printf("GOVC-FAIL name=c02-forest %s\n%q\n", d, text)
				break
			}
		}
		// damage the text in one place: it must be rejected, with nothing returned
		var bad string
		switch rng.Intn(6) {
		case 0:
			bad = text + " }"
		case 1:
			bad = text + " leaf x { type string; "
		case 2:
			bad = text + " leaf x \"never closed; }"
		case 3:
			bad = text + " description \"bad \\q escape\";"
		case 4:
			// a quoted plus is a string, not the concatenation sign: three strings in a row
			bad = text + [...]string{" k \"a\" \"+\" \"b\";", " k 'a' '+' 'b' { }", " k \"a\"'+'\"b\";", " k \"a\" + \"b\" \"+\" \"c\";"}[rng.Intn(4)]
		default:
			bad = text + " leaf x y z;"
		}
		evals++
		if ss, err := Parse(bad, "bad.yang"); err == nil || len(ss) != 0 || strings.TrimSpace(err.Error()) == "" {
			fmt.Printf("GOVC-FAIL name=c02-rejection a malformed text gives %d statements and error %v: %q\n", len(ss), err, bad)
		}
	}
	// fixed cases: the pattern exception, escapes, concatenation over comments
	fixed := []struct{ text, kw, arg string }{
		{`pattern "\d+\.\S";`, "pattern", `\d+\.\S`},
		{`pattern '\d+' + "\." + "x";`, "pattern", `\d+\.x`},
		{"description \"a\\tb\\nc\\\\d\\\"e\";", "description", "a\tb\nc\\d\"e"},
		{"description\n  \"first\n   second\n     third\n  fourth\";", "description", "first\nsecond\n  third\nfourth"},
		{"x 'it''s';", "", ""},
		{"d \"a\" /* c */ + // c\n 'b' +\"c\";", "d", "abc"},
		{"d \"trailing   \n   next\";", "d", "trailing\nnext"},
		{"k a+b;", "k", "a+b"},
		{"k +;", "k", "+"},
		{"k a/b;", "k", "a/b"},
		// pattern mode ends with the argument: inside the block escapes are checked again
		{"pattern \"[a-z]+\" { error-message \"no \\d\"; }", "", ""},
		{"pattern \"\\d\" { x { y \"\\q\"; } }", "", ""},
		{"pattern \"\\d\"; description \"\\d\";", "", ""},
		{"a /*/ b;", "", ""}, // the '*' of a comment opener is not the '*' of the closer: unterminated
		{"a /*/ b; */ c;", "a", "c"},
		{"a /**/ b;", "a", "b"},
		{"a /***/ b;", "a", "b"},
		{"units +/-1;", "units", "+/-1"},
		{"+/a;", "+/a", ""},
	}
	for _, f := range fixed {
		evals++
		ss, err := Parse(f.text, "f.yang")
		if f.kw == "" {
			if err == nil {
				fmt.Printf("GOVC-FAIL name=c02-rejection accepted: %q\n", f.text)
			}
			continue
		}
		if err != nil || len(ss) != 1 || ss[0].Keyword != f.kw || ss[0].Argument != f.arg {
			got := ""
			if len(ss) == 1 {
				got = ss[0].Keyword + " " + strconv.Quote(ss[0].Argument)
			}
			fmt.Printf("GOVC-FAIL name=c02-forest %q parses as %s (%v), expected %s %q\n", f.text, got, err, f.kw, f.arg)
		}
	}
	fmt.Printf("GOVC-BOUNDED name=c02-forest-round-trip bound=%d_generated_forests_written_in_random_RFC_6.1.3_spellings_(seed_%d),_each_also_damaged_once,_+_19_fixed_cases evaluations=%d distinct=%d\n", texts, seed, evals, stmts)
}
