package yang

// Bounded stand-in for C03 (the builder is closures over reflect made at init:
// no contract reaches it). Every module the generators of the shared model
// file produce -- containers, lists, leaves, leaf-lists, choices, cases, rpcs,
// actions, notifications, groupings, uses, typedefs, augments, deviations,
// identities, extension statements at every level -- is built, and the AST is
// walked against the statement tree it was built from: every substatement
// appears exactly once, in the field of its keyword and in source order among
// the substatements of that keyword (a prefixed keyword: in the extension
// list), carries the argument as its name, links to its enclosing node and
// refers back to its statement; no field holds anything no substatement
// produced. Statement trees with one fault (a keyword unknown in its context,
// a second occurrence of a single-valued substatement, an absent mandatory
// substatement, a top-level statement that is not a module) must be rejected.

import (
	"fmt"
	"math/rand"
	"os"
	"reflect"
	"strconv"
	"strings"
	"testing"
)

type govcAst struct {
	fails []string
	nodes int
}

func (c *govcAst) failf(format string, a ...interface{}) {
	if len(c.fails) < 5 {
		c.fails = append(c.fails, fmt.Sprintf(format, a...))
	}
}

var govcNodeType = reflect.TypeOf((*Node)(nil)).Elem()

// check compares node n with the statement s it must have been built from.
func (c *govcAst) check(n Node, s *Statement, parent Node, path string) {
	c.nodes++
	if n.Statement() != s {
		c.failf("%s: the node does not refer back to its statement", path)
		return
	}
	if n.ParentNode() != parent {
		c.failf("%s: the node does not link to its enclosing node", path)
	}
	if n.NName() != s.Argument {
		c.failf("%s: named %q, the statement's argument is %q", path, n.NName(), s.Argument)
	}
	rv := reflect.ValueOf(n)
	if rv.Kind() != reflect.Ptr || rv.Elem().Kind() != reflect.Struct {
		c.failf("%s: node is a %T", path, n)
		return
	}
	st := rv.Elem()
	// substatements by keyword, in source order
	byKW := map[string][]*Statement{}
	var exts []*Statement
	for _, ss := range s.SubStatements() {
		if strings.Contains(ss.Keyword, ":") {
			exts = append(exts, ss)
			continue
		}
		byKW[ss.Keyword] = append(byKW[ss.Keyword], ss)
	}
	seenKW := map[string]bool{}
	for i := 0; i < st.NumField(); i++ {
		f := st.Type().Field(i)
		tag := strings.Split(f.Tag.Get("yang"), ",")[0]
		if tag == "" || tag == "Name" || tag == "Statement" || tag == "Parent" {
			continue
		}
		fv := st.Field(i)
		if tag == "Ext" {
			got, _ := fv.Interface().([]*Statement)
			if len(got) != len(exts) {
				c.failf("%s: %d extension statements kept, %d written", path, len(got), len(exts))
				continue
			}
			for k := range got {
				if got[k] != exts[k] {
					c.failf("%s: extension statement %d is not the %d-th prefixed substatement", path, k, k)
				}
			}
			continue
		}
		seenKW[tag] = true
		want := byKW[tag]
		switch fv.Kind() {
		case reflect.Slice:
			if fv.Len() != len(want) {
				c.failf("%s: field %s holds %d nodes, %d %s substatements are written", path, f.Name, fv.Len(), len(want), tag)
				continue
			}
			for k := 0; k < fv.Len(); k++ {
				cn, ok := fv.Index(k).Interface().(Node)
				if !ok || reflect.ValueOf(cn).IsNil() {
					c.failf("%s: field %s[%d] is not a node", path, f.Name, k)
					continue
				}
				c.check(cn, want[k], n, fmt.Sprintf("%s/%s[%d]", path, tag, k))
			}
		case reflect.Ptr:
			if fv.IsNil() {
				if len(want) != 0 {
					c.failf("%s: field %s is empty, a %s substatement is written", path, f.Name, tag)
				}
				continue
			}
			if len(want) != 1 {
				c.failf("%s: field %s is set, %d %s substatements are written", path, f.Name, len(want), tag)
				continue
			}
			cn, ok := fv.Interface().(Node)
			if !ok {
				c.failf("%s: field %s is not a node", path, f.Name)
				continue
			}
			c.check(cn, want[0], n, path+"/"+tag)
		}
	}
	for kw := range byKW {
		if !seenKW[kw] {
			c.failf("%s: substatement %s has no field in %T, yet the build succeeded", path, kw, n)
		}
	}
}

func TestGovcBoundedC03Mirror(t *testing.T) {
	seed := int64(1)
	if s := os.Getenv("VERIF_SEED"); s != "" {
		if v, err := strconv.ParseInt(s, 10, 64); err == nil {
			seed = v
		}
	}
	schemas := 60
	if os.Getenv("VERIF_TIER") == "thorough" {
		schemas = 1000
	}
	rng := rand.New(rand.NewSource(seed))
	evals, nodes := 0, 0
	decorate := func(s *gsStmt, depth int) {}
	decorate = func(s *gsStmt, depth int) {
		// descriptions, references, status, extension statements and a second description-like
		// multi-valued statement (must) at random places
		if rng.Intn(4) == 0 && s.child("description") == nil && s.kw != "input" && s.kw != "output" && s.kw != "argument" && s.kw != "import" && s.kw != "include" && s.kw != "belongs-to" && s.kw != "description" && s.kw != "reference" && s.kw != "status" && s.kw != "presence" && s.kw != "must" && s.kw != "when" && s.kw != "if-feature" && s.kw != "value" && s.kw != "position" && s.kw != "path" && s.kw != "type" && s.kw != "uses" && s.kw != "key" && s.kw != "prefix" && s.kw != "default" && s.kw != "config" && s.kw != "mandatory" && !strings.HasSuffix(s.kw, "-elements") && s.kw != "base" && s.kw != "units" && s.kw != "namespace" && s.kw != "deviate" {
			s.kids = append(s.kids, gs("description", "about "+s.arg))
		}
		if rng.Intn(5) == 0 {
			at := rng.Intn(len(s.kids) + 1)
			ext := gs("ex:note", fmt.Sprintf("n%d", rng.Intn(100)))
			if rng.Intn(2) == 0 {
				ext.kids = append(ext.kids, gs("ex:inner", "x"))
			}
			s.kids = append(s.kids[:at:at], append([]*gsStmt{ext}, s.kids[at:]...)...)
		}
		if (s.kw == "container" || s.kw == "list" || s.kw == "leaf") && rng.Intn(4) == 0 {
			s.kids = append(s.kids, gs("must", "a > 1"), gs("must", "b < 2"))
		}
		for _, k := range s.kids {
			if depth < 8 && !strings.Contains(k.kw, ":") {
				decorate(k, depth+1)
			}
		}
	}
	for n := 0; n < schemas; n++ {
		g := &gxGen{rng: rng, nGroup: rng.Intn(5)}
		g.mkModules()
		for _, m := range g.mods {
			g.topNodes(m)
		}
		g.mkGroupings()
		g.mkInstances()
		for i, m := range g.mods {
			if m.belongs == nil {
				m.stmt.add(gs("identity", fmt.Sprintf("id%d", i)), gs("identity", fmt.Sprintf("jd%d", i), gs("base", fmt.Sprintf("id%d", i))))
				m.stmt.add(gs("revision", "2020-01-02", gs("description", "second")), gs("revision", "2019-01-02"))
				m.stmt.add(gs("extension", "note", gs("argument", "text")), gs("feature", "f1"))
				m.stmt.add(gs("deviation", "/"+m.prefix+":nowhere", gs("deviate", "add", gs("config", "false")), gs("deviate", "replace", gs("units", "u"))))
			}
			decorate(m.stmt, 0)
		}
		ms := NewModules()
		ok := true
		for i, m := range g.mods {
			if err := ms.Parse(m.text(), fmt.Sprintf("f%d.yang", i)); err != nil {
				fmt.Printf("GOVC-FAIL name=c03-mirror schema %d: a generated module is refused: %v\n%s\n", n, err, m.text())
				ok = false
			}
		}
		if !ok {
			continue
		}
		for _, set := range []map[string]*Module{ms.Modules, ms.SubModules} {
			for name, m := range set {
				if strings.Contains(name, "@") {
					continue
				}
				evals++
				c := &govcAst{}
				c.check(m, m.Statement(), nil, "/"+name)
				nodes += c.nodes
				for _, f := range c.fails {
					fmt.Printf("GOVC-FAIL name=c03-mirror schema %d: %s\n", n, f)
				}
			}
		}
	}
	// one fault each: must be rejected
	hdr := "namespace \"urn:m\"; prefix m; "
	faults := []struct{ what, text string }{
		{"keyword unknown in its context", "module m { " + hdr + "container c { namespace \"urn:x\"; } }"},
		{"keyword unknown in its context", "module m { " + hdr + "leaf l { type string; key k; } }"},
		{"keyword unknown in its context", "module m { " + hdr + "container c { type string; } }"},
		{"keyword unknown in its context", "module m { " + hdr + "belongs-to x { prefix x; } }"},
		{"keyword unknown in its context", "submodule s { belongs-to m { prefix m; } namespace \"urn:s\"; }"},
		{"keyword unknown in its context", "module m { " + hdr + "leaf l { type string; bogus-word x; } }"},
		{"keyword unknown in its context", "module m { " + hdr + "rpc r { input { leaf i { type string; } } leaf stray { type string; } } }"},
		{"second occurrence of a single-valued substatement", "module m { " + hdr + "leaf l { type string; type int8; } }"},
		{"second occurrence of a single-valued substatement", "module m { " + hdr + "leaf l { type string; description a; description b; } }"},
		{"second occurrence of a single-valued substatement", "module m { " + hdr + "container c { config true; config false; } }"},
		{"second occurrence of a single-valued substatement", "module m { " + hdr + "list l { key a; key b; leaf a { type string; } leaf b { type string; } } }"},
		{"second occurrence of a single-valued substatement", "module m { " + hdr + "namespace \"urn:again\"; }"},
		{"second occurrence of a single-valued substatement", "module m { " + hdr + "prefix again; }"},
		{"second occurrence of a single-valued substatement", "module m { " + hdr + "import o { prefix o; prefix p; } }"},
		{"absent mandatory substatement", "module m { " + hdr + "leaf l { description \"no type\"; } }"},
		{"absent mandatory substatement", "module m { " + hdr + "leaf-list l { description \"no type\"; } }"},
		{"absent mandatory substatement", "module m { " + hdr + "import o; }"},
		{"absent mandatory substatement", "module m { prefix m; }"},
		{"absent mandatory substatement", "module m { namespace \"urn:m\"; }"},
		{"absent mandatory substatement", "submodule s { leaf l { type string; } }"},
		{"absent mandatory substatement", "module m { " + hdr + "typedef t { units u; } }"},
		{"absent mandatory substatement", "module m { " + hdr + "deviation \"/m:x\"; }"},
		{"top-level statement that is not a module", "container c { leaf l { type string; } }"},
		{"top-level statement that is not a module", "typedef t { type string; }"},
		{"top-level statement that is not a module", "module m { " + hdr + "} leaf stray { type string; }"},
	}
	for _, f := range faults {
		evals++
		ms := NewModules()
		if err := ms.Parse(f.text, "fault.yang"); err == nil {
			fmt.Printf("GOVC-FAIL name=c03-rejection %s, accepted: %s\n", f.what, f.text)
		}
	}
	// the same faults on a set that has just refused other texts (texts that are refused only
	// after namespace, prefix, type, belongs-to ... have been seen): what a refused text leaves
	// behind must not make up for what the next one lacks
	{
		refusedTexts := []string{
			"module r1 { namespace \"urn:r1\"; prefix r1; leaf a { type string; } import o { prefix o; } bogus x; }",
			"module r1 { namespace \"urn:r1\"; prefix r1; leaf a { type string; bogus x; } }",
			"module r1 { namespace \"urn:r1\"; prefix r1; container c { leaf a { type string { bogus x; } } } }",
			"module r1 { namespace \"urn:r1\"; prefix r1; container c { container d { leaf a { type string; } bogus x; } } }",
			"submodule r2 { belongs-to r1 { prefix r1; } leaf b { type string; bogus y; } }",
			"module r3 { namespace \"urn:r3\"; prefix r3; import o { prefix o; bogus z; } }",
		}
		for ri, refused := range refusedTexts {
			for _, f := range faults {
				evals++
				ms := NewModules()
				if err := ms.Parse(refused, "refused.yang"); err == nil {
					fmt.Printf("GOVC-FAIL name=c03-rejection accepted: %s\n", refused)
				}
				if ri%2 == 1 {
					ms.Parse(refusedTexts[(ri+1)%len(refusedTexts)], "refused2.yang")
				}
				if err := ms.Parse(f.text, "fault.yang"); err == nil {
					fmt.Printf("GOVC-FAIL name=c03-rejection %s, accepted by a set that refused %q before: %s\n", f.what, refused, f.text)
				}
			}
		}
	}
	// the module / submodule statement itself: what belongs to the one kind is refused under the other
	for _, text := range []string{
		"module m { namespace \"urn:m\"; prefix m; belongs-to o { prefix o; } }",
		"submodule s { belongs-to m { prefix m; } namespace \"urn:s\"; }",
		"submodule s { belongs-to m { prefix m; } prefix s; }",
		"submodule s { prefix s; belongs-to m { prefix m; } }",
		"submodule s { belongs-to m { prefix m; } namespace \"urn:s\"; prefix s; }",
	} {
		evals++
		if err := NewModules().Parse(text, "kind.yang"); err == nil {
			fmt.Printf("GOVC-FAIL name=c03-rejection a statement of the other kind (module / submodule) is accepted: %s\n", text)
		}
	}
	// a refused text, then a text whose faulty statement stands where the refused text had a
	// complete one -- at several depths and with the module header before or after the body
	// (whatever a refused build leaves behind must not make up for what the next one lacks)
	{
		wrap := func(depth int, inner string, headerFirst bool) string {
			body := inner
			for i := depth; i > 0; i-- {
				body = fmt.Sprintf("container c%d { %s }", i, body)
			}
			if headerFirst {
				return "module m { namespace \"urn:m\"; prefix m; " + body + " }"
			}
			return "module m { " + body + " namespace \"urn:m\"; prefix m; }"
		}
		for depth := 0; depth < 4; depth++ {
			for _, hf := range []bool{true, false} {
				for _, pair := range [][2]string{
					{"leaf x { type string { bogus 1; } }", "leaf y { description \"no type\"; }"},
					{"leaf x { type string; bogus 1; }", "leaf y { description \"no type\"; }"},
					{"leaf-list x { type string; bogus 1; }", "leaf-list y { description \"no type\"; }"},
					{"typedef x { type string; bogus 1; }", "typedef y { description \"no type\"; }"},
				} {
					for d2 := 0; d2 < 4; d2++ {
						evals++
						ms := NewModules()
						if err := ms.Parse(wrap(depth, pair[0], true), "refused.yang"); err == nil {
							fmt.Printf("GOVC-FAIL name=c03-rejection accepted: %s\n", wrap(depth, pair[0], true))
						}
						if text := wrap(d2, pair[1], hf); ms.Parse(text, "fault.yang") == nil {
							fmt.Printf("GOVC-FAIL name=c03-rejection an absent mandatory substatement is accepted after a refused text: %s\n", text)
						}
					}
				}
			}
		}
		for _, hf := range []string{"module m { import other { description \"no prefix\"; } namespace \"urn:m\"; prefix m; }", "module m { namespace \"urn:m\"; prefix m; import other { description \"no prefix\"; } }", "module m { prefix m; leaf z { type string; } }"} {
			for _, refused := range []string{"module bad { namespace \"urn:bad\"; prefix bad; bogus 1; }", "module bad { namespace \"urn:bad\"; prefix bad; import o { prefix o; bogus 1; } }"} {
				evals++
				ms := NewModules()
				ms.Parse(refused, "refused.yang")
				if ms.Parse(hf, "fault.yang") == nil {
					fmt.Printf("GOVC-FAIL name=c03-rejection an absent mandatory substatement is accepted after a refused text: %s\n", hf)
				}
			}
		}
	}
	// every keyword under every statement that has no place for it: starting from the module
	// node type, the node types are explored through their tagged fields; for each type P (reached
	// by a chain of keywords from module) and each keyword K of the whole vocabulary that P has
	// no field for, "P x { <what P requires> K x; }" must be refused.
	type tinfo struct {
		path []string // keywords from module down to this statement
		t    reflect.Type
	}
	tagsOf := func(t reflect.Type) (kws map[string]reflect.Type, required []string) {
		kws = map[string]reflect.Type{}
		for i := 0; i < t.NumField(); i++ {
			parts := strings.Split(t.Field(i).Tag.Get("yang"), ",")
			tag := parts[0]
			if tag == "" || tag == "Name" || tag == "Statement" || tag == "Parent" || tag == "Ext" {
				continue
			}
			ft := t.Field(i).Type
			if ft.Kind() == reflect.Slice {
				ft = ft.Elem()
			}
			if ft.Kind() == reflect.Ptr && ft.Elem().Kind() == reflect.Struct {
				kws[tag] = ft.Elem()
			}
			for _, p := range parts[1:] {
				if p == "required" {
					required = append(required, tag)
				}
			}
		}
		return
	}
	seen := map[reflect.Type]bool{}
	vocab := map[string]bool{}
	var types []tinfo
	queue := []tinfo{{[]string{"module"}, reflect.TypeOf(Module{})}}
	for len(queue) > 0 {
		ti := queue[0]
		queue = queue[1:]
		if seen[ti.t] {
			continue
		}
		seen[ti.t] = true
		types = append(types, ti)
		kws, _ := tagsOf(ti.t)
		var names []string
		for k := range kws {
			names = append(names, k)
		}
		sortStringsC03(names)
		for _, k := range names {
			vocab[k] = true
			queue = append(queue, tinfo{append(append([]string{}, ti.path...), k), kws[k]})
		}
	}
	var words []string
	for k := range vocab {
		words = append(words, k)
	}
	sortStringsC03(words)
	// words that are no keyword of any statement: the names of the fields every node has (the
	// builder keeps their setters in the table of keyword builders), a plain unknown word,
	// and keywords with a colon but an empty prefix or an empty name
	nonWords := []string{"Name", "Statement", "Parent", "Ext", "no-such-keyword", ":x", "x:", ":"}
	words = append(words, nonWords...)
	for _, k := range nonWords {
		for _, text := range []string{
			"module m { namespace \"urn:m\"; prefix m; " + k + " x; }",
			"submodule s { belongs-to m { prefix m; } " + k + " x; }",
			"module m { namespace \"urn:m\"; prefix m; rpc r { input { " + k + " foo; } } }",
			"module m { namespace \"urn:m\"; prefix m; container \"\" { " + k + " zed; } }",
		} {
			evals++
			if err := NewModules().Parse(text, "nw.yang"); err == nil {
				fmt.Printf("GOVC-FAIL name=c03-rejection %q is not a keyword, accepted: %s\n", k, text)
			}
		}
	}
	// mk writes the statement for a keyword chain with everything its nodes require
	var mkReq func(t reflect.Type, depth int, skip string) string
	mkReq = func(t reflect.Type, depth int, skip string) string {
		kws, req := tagsOf(t)
		var sb strings.Builder
		for _, r := range req {
			if depth > 6 || kws[r] == nil || r == skip {
				continue
			}
			inner := mkReq(kws[r], depth+1, "")
			if inner == "" {
				fmt.Fprintf(&sb, " %s x;", r)
			} else {
				fmt.Fprintf(&sb, " %s x {%s }", r, inner)
			}
		}
		return sb.String()
	}
	pairs := 0
	for _, ti := range types {
		if len(ti.path) < 2 || ti.path[1] == "belongs-to" {
			continue // the module statement itself has the module / submodule special rules
		}
		own, _ := tagsOf(ti.t)
		for _, k := range words {
			if _, has := own[k]; has {
				continue
			}
			// build the nesting: module m { ns; prefix; p1 x { req... p2 x { req ... K x; } } }
			var open, closeB strings.Builder
			t := reflect.TypeOf(Module{})
			for i, kw := range ti.path[1:] {
				kws, _ := tagsOf(t)
				t = kws[kw]
				next := ""
				if i+2 < len(ti.path) {
					next = ti.path[i+2] // the next statement of the chain is written anyway
				}
				fmt.Fprintf(&open, " %s x {%s", kw, mkReq(t, 0, next))
				closeB.WriteString(" }")
			}
			text := "module m { namespace \"urn:m\"; prefix m;" + open.String() + " " + k + " x;" + closeB.String() + " }"
			pairs++
			ms := NewModules()
			if err := ms.Parse(text, "ctx.yang"); err == nil {
				fmt.Printf("GOVC-FAIL name=c03-rejection %s has no place for a %s statement, accepted: %s\n", strings.Join(ti.path, "/"), k, text)
			}
		}
		// control: the wrapper alone is accepted (otherwise the rejections above prove nothing)
		var open, closeB strings.Builder
		t := reflect.TypeOf(Module{})
		for i, kw := range ti.path[1:] {
			kws, _ := tagsOf(t)
			t = kws[kw]
			next := ""
			if i+2 < len(ti.path) {
				next = ti.path[i+2]
			}
			fmt.Fprintf(&open, " %s x {%s", kw, mkReq(t, 0, next))
			closeB.WriteString(" }")
		}
		text := "module m { namespace \"urn:m\"; prefix m;" + open.String() + closeB.String() + " }"
		if err := NewModules().Parse(text, "ctx.yang"); err != nil {
			fmt.Printf("GOVC-FAIL name=c03-rejection the wrapper for %s is itself refused (%v): %s\n", strings.Join(ti.path, "/"), err, text)
		}
	}
	evals += pairs
	fmt.Printf("GOVC-BOUNDED name=c03-ast-mirrors-statements bound=%d_generated_module_sets_(every_node_of_every_module_and_submodule_walked,_seed_%d)_+_%d_single-fault_texts_+_%d_(statement,_foreign_keyword)_pairs_over_%d_statement_types evaluations=%d distinct=%d\n", schemas, seed, len(faults), pairs, len(types), evals, nodes)
}

func sortStringsC03(s []string) {
	for i := 1; i < len(s); i++ {
		for j := i; j > 0 && s[j] < s[j-1]; j-- {
			s[j], s[j-1] = s[j-1], s[j]
		}
	}
}
